"""C15 -- query rewriting never changes what a query means."""

import ast
import re

from ..report import rule
from .. import norm, cfg as cfgmod, guards
from ..model import AnalysisError, self_attr_assignments
from .common import reconstruction_check, calls_of, find_calls, returns_of, is_abstract_body, bind_args

MATCH_METHODS = ("matcher", "_matcher", "_btexts", "_compile_query", "docs", "_and_query", "_get_pattern",
                 "_find_prefix", "deletion_docs")
REWRITE_METHODS = ("normalize", "apply", "with_boost", "_rewrap", "simplify", "replace", "accept", "copy", "merge")
NOT_SEMANTIC = {"boost", "startchar", "endchar", "minquality", "_words", "char_ranges", "error",
                # score-only or unimplemented configuration: cannot change which documents match
                "scale", "tiebreak", "minmatch", "per_parent_limit", "score_fn", "constantscore", "score", "weighting"}


def self_reads(prog, cls, names, depth=0, seen=None):
    """self attributes read by the given methods as resolved on cls (self-callees included)."""
    seen = seen if seen is not None else set()
    out = set()
    for nm in names:
        f = prog.lookup(cls, nm)
        if f is None or f.qualname in seen:
            continue
        seen.add(f.qualname)
        for n in ast.walk(f.node):
            if isinstance(n, ast.Attribute) and isinstance(n.value, ast.Name) and n.value.id == "self" and isinstance(n.ctx, ast.Load):
                if prog.lookup(cls, n.attr) is not None:
                    if depth < 3:
                        out |= self_reads(prog, cls, [n.attr], depth + 1, seen)
                else:
                    out.add(n.attr)
        if "self.__dict__" in norm.stmt_text(f.node):
            out.add("*")
    return out


def init_params(prog, cls):
    init = prog.lookup(cls, "__init__")
    if init is None:
        return None, []
    a = init.node.args
    return init, [x.arg for x in a.args][1:]


def param_attrs(prog, cls):
    """constructor parameter -> attributes assigned from it (directly, or through a simple expression)."""
    init = prog.lookup(cls, "__init__")
    out = {}
    if init is None:
        return out
    params = set(init.params[1:])
    for st in ast.walk(init.node):
        if isinstance(st, ast.Assign):
            used = norm.names_in(st.value) & params
            for t in st.targets:
                if isinstance(t, ast.Attribute) and isinstance(t.value, ast.Name) and t.value.id == "self":
                    for p in used:
                        out.setdefault(p, set()).add(t.attr)
    return out


@rule("C15", "R1", "K6", "queries that match differently are unequal: every match-relevant attribute enters __eq__ or __hash__",
      min_instances=20,
      clause="For each query class, the attributes read by matcher()/_matcher()/_btexts()/_compile_query()/docs() are "
             "compared by __eq__ or hashed by __hash__ (normalize() removes duplicates through a set, so a clause is "
             "dropped only when hash and eq both agree).")
def c15_r1(ctx):
    prog = ctx.prog
    qbase = prog.cls("query.qcore.Query")
    for cls in prog.subclasses(qbase, strict=True):
        if prog.lookup(cls, "matcher") is None or is_abstract_body(prog.lookup(cls, "matcher")):
            continue
        eq = prog.lookup(cls, "__eq__")
        hs = prog.lookup(cls, "__hash__")
        if eq is None or eq.cls is None or eq.cls.short == "query.qcore.Query" and hs is None:
            continue
        reads = self_reads(prog, cls, MATCH_METHODS) - NOT_SEMANTIC
        ident = self_reads(prog, cls, ["__eq__", "__hash__"])
        if "*" in ident:
            continue  # compares __dict__
        # only attributes that come from constructor parameters are identity-relevant
        pa = param_attrs(prog, cls)
        # a constructor parameter is covered if any attribute derived from it is compared/hashed
        missing = sorted(p_ for p_, attrs in pa.items()
                         if (attrs & reads) and not (attrs & ident) and p_ not in NOT_SEMANTIC)
        ctx.saw(eq)
        ctx.ob(cls, not missing, "match-relevant constructor attributes are part of equality or hash",
               detail="constructor parameters read by matching code but ignored by both __eq__ and __hash__: %s" % missing if missing else "",
               loc=cls.loc)


def _class_identity_test(eq, prog):
    """how an __eq__ decides that `other` is of the same kind: "exact" (class identity), ("isinstance", [classes]) or None"""
    other = eq.params[1] if len(eq.params) > 1 else None
    if other is None:
        return None
    exact = False
    insts = []
    for n in ast.walk(eq.node):
        if isinstance(n, ast.Compare) and len(n.ops) == 1 and isinstance(n.ops[0], (ast.Is, ast.Eq)):
            sides = sorted([norm.canon(n.left), norm.canon(n.comparators[0])])
            if sides in (sorted(["self.__class__", "%s.__class__" % other]), sorted(["self.__class__", "type(%s)" % other]),
                         sorted(["type(self)", "type(%s)" % other])):
                exact = True
        if isinstance(n, ast.Call) and norm.call_name(n) == "isinstance" and len(n.args) == 2 and norm.canon(n.args[0]) == other:
            insts.append(n.args[1])
    if exact:
        return "exact"
    if insts:
        return ("isinstance", insts)
    return None


@rule("C15", "R11", "K6", "queries of different classes are never equal",
      min_instances=10,
      clause="Every __eq__ of a query class decides sameness of kind by class identity (self.__class__ is other.__class__, or "
             "type(other)); isinstance() is accepted only against a class without subclasses.  Prefix('f','a'), Wildcard('f','a') "
             "and Regex('f','a') share a base class and a class-agnostic hash: an isinstance test would make them equal and "
             "normalize() would drop all but one as duplicates.")
def c15_r11(ctx):
    prog = ctx.prog
    qbase = prog.cls("query.qcore.Query")
    seen = set()
    for cls in prog.subclasses(qbase):
        eq = cls.methods.get("__eq__")
        if eq is None or eq.qualname in seen:
            continue
        seen.add(eq.qualname)
        ctx.saw(eq)
        how = _class_identity_test(eq, prog)
        ok = how == "exact"
        detail = ""
        if isinstance(how, tuple):
            ok = True
            for e in how[1]:
                r = prog.resolve_in_func(eq, e)
                k = r[1] if r is not None and r[0] == "class" else None
                subs = prog.subclasses(k, strict=True) if k is not None else ["?"]
                if subs:
                    ok = False
                    detail = "isinstance(other, %s) also accepts %s" % (norm.canon(e), ", ".join(getattr(x, "name", "?") for x in subs[:4]))
        elif how is None:
            detail = "no test of the other object's class"
        ctx.ob(eq, ok, "__eq__ requires the other query to be of exactly the same class", detail=detail)
    if len(seen) < 10:
        raise AnalysisError("only %d query __eq__ methods found" % len(seen))


@rule("C15", "R2", "K6", "rewrites rebuild a query with every match-relevant constructor argument",
      min_instances=20,
      clause="Every self.__class__(...) / Cls(...) in normalize, apply, with_boost, _rewrap, simplify, replace, accept, "
             "merge -- checked for each concrete subclass that inherits the method -- fits the target constructor and "
             "passes (or restores afterwards) each parameter whose attribute the matching code reads.")
def c15_r2(ctx):
    prog = ctx.prog
    qbase = prog.cls("query.qcore.Query")
    seen = set()
    for cls in prog.subclasses(qbase, strict=True):
        init, params = init_params(prog, cls)
        if init is None:
            continue
        pa = param_attrs(prog, cls)
        reads = self_reads(prog, cls, MATCH_METHODS) | self_reads(prog, cls, ["__eq__", "__hash__"])
        for m in REWRITE_METHODS:
            f = prog.lookup(cls, m)
            if f is None or is_abstract_body(f):
                continue
            for call in norm.calls_in(f.node):
                if norm.canon(call.func) != "self.__class__":
                    continue
                key = (f.qualname, call.lineno, call.col_offset, init.qualname)
                if key in seen:
                    continue
                seen.add(key)
                ctx.saw(f)
                construct = "%s -> %s(...)" % (f.short, cls.name)
                mapping, probs = bind_args(call, init)
                if mapping is None:
                    continue
                ctx.ob(construct, not probs, "call fits %s.__init__%s" % (cls.name, tuple(params)),
                       detail="; ".join(probs) + " (TypeError at run time)" if probs else "", loc=ctx.nodeloc(f, call))
                if probs:
                    continue
                # attributes restored after construction:  q = self.__class__(...); q.attr = self.attr
                restored = set()
                for st in ast.walk(f.node):
                    if isinstance(st, ast.Assign):
                        for t in st.targets:
                            if isinstance(t, ast.Attribute) and not (isinstance(t.value, ast.Name) and t.value.id == "self"):
                                restored.add(t.attr)
                for p in params:
                    if p in mapping or p == "boost":
                        continue
                    attrs = pa.get(p, set())
                    relevant = sorted(a for a in attrs if a in reads and a not in restored and a not in NOT_SEMANTIC)
                    if relevant:
                        ctx.ob(construct, False, "constructor parameter %r is passed on" % p,
                               detail="self.%s is match-relevant but the rewritten query gets the default" % relevant[0],
                               loc=ctx.nodeloc(f, call))
                    else:
                        ctx.ob(construct, True, "constructor parameter %r may be defaulted" % p, loc=ctx.nodeloc(f, call))


@rule("C15", "R3", "K2", "clause absorption and range merging consult the operator and the exclusivity flags",
      min_instances=3,
      clause="In CompoundQuery.normalize every statement that drops a clause or returns a different query because a "
             "match-everything clause is present is control-dependent on a discriminator of the enclosing operator "
             "(intersect_merge / isinstance); RangeMixin.merge picks between the operands' bounds only after consulting "
             "`intersect`; overlaps()/merge() read both exclusivity flags.")
def c15_r3(ctx):
    prog = ctx.prog
    nz = prog.method("query.compound.CompoundQuery", "normalize", inherited=False)
    ctx.saw(nz)
    fa = guards.Facts(nz)
    disc = ("intersect_merge", "isinstance(self", "self.__class__ is", "JOINT")

    def discriminated(node):
        facts = fa.at(node) or frozenset()
        return any(any(d in t for d in disc) for (_, t) in facts)

    # locals by role: lists of sub-queries being rebuilt; sets collecting the field names of Every clauses
    work_lists = set(nm for nm, vals in norm.assigned_names(nz.node).items() if any(v is not None and isinstance(v, (ast.List, ast.ListComp)) for v in vals))
    every_sets = set(norm.receiver(c).id for c in norm.calls_in(nz.node) if norm.call_name(c) == "add" and isinstance(norm.receiver(c), ast.Name)
                     and c.args and isinstance(c.args[0], ast.Attribute) and c.args[0].attr == "fieldname")
    if not work_lists or not every_sets:
        raise AnalysisError("CompoundQuery.normalize: work list / Every-field set not recognised")
    for n in fa.g.nodes:
        a = n.ast
        if n.kind == "return" and a.value is not None and norm.canon(a.value) in ("Every()",):
            ctx.ob(nz, discriminated(n), "return Every()   [an unfielded Every absorbs the whole compound]",
                   detail="valid for Or, wrong for And (And([Every(), t]) must stay t): not conditioned on the operator",
                   loc=ctx.nodeloc(nz, a))
        if n.kind == "stmt":
            for c in norm.calls_in(a):
                if norm.call_name(c) == "pop" and isinstance(norm.receiver(c), ast.Name) and norm.receiver(c).id in work_lists and \
                        isinstance(a, ast.Expr):
                    ctx.ob(nz, discriminated(n), "a clause is popped and discarded   [a clause whose field is covered by Every(field) is dropped]",
                           detail="valid for Or, wrong for And: not conditioned on the operator", loc=ctx.nodeloc(nz, a))
        if n.kind == "stmt" and isinstance(a, ast.Continue):
            facts = fa.at(n) or frozenset()
            if any(any(re.search(r"\b%s\b" % re.escape(ef), t) for ef in every_sets) and p == "T" for (p, t) in facts):
                ctx.ob(nz, discriminated(n), "continue   [a clause is skipped because its field is in everyfields]",
                       detail="valid for Or, wrong for And: not conditioned on the operator", loc=ctx.nodeloc(nz, a))
    # dropping NullQuery clauses
    for st in ast.walk(nz.node):
        if isinstance(st, ast.Assign) and "NullQuery" in norm.canon(st.value) and (
                isinstance(st.value, ast.ListComp) or any(norm.call_name(c) == "filter" for c in norm.calls_in(st.value))):
            node = [n for n in fa.g.nodes if n.ast is st]
            ctx.ob(nz, bool(node) and discriminated(node[0]), "NullQuery clauses are filtered out of the clause list",
                   detail="valid for Or, wrong for And (And([NullQuery, t]) matches nothing): not conditioned on the operator",
                   loc=ctx.nodeloc(nz, st))
    # ... or skipped inside the loop that rebuilds the list: `if s is NullQuery: continue`
    for n in fa.g.nodes:
        a = n.ast
        if n.kind == "stmt" and isinstance(a, ast.Continue):
            alts = fa.alternatives(n) or []
            if alts and all(any(p == "T" and "NullQuery" in t and t.startswith("(") and " is " in t for (p, t) in alt) for alt in alts):
                ctx.ob(nz, discriminated(n), "NullQuery clauses are filtered out of the clause list",
                       detail="valid for Or, wrong for And (And([NullQuery, t]) matches nothing): not conditioned on the operator",
                       loc=ctx.nodeloc(nz, a))
    # merge consults intersect before choosing between bounds
    mg = prog.method("query.ranges.RangeMixin", "merge", inherited=False)
    ctx.saw(mg)
    fm = guards.Facts(mg)
    ROLE = {"self._comparable_start()": "own start", "other._comparable_start()": "other's start",
            "self._comparable_end()": "own end", "other._comparable_end()": "other's end"}
    nchoices = 0
    for n in fm.g.nodes:
        a = n.ast
        if n.kind == "stmt" and isinstance(a, ast.Assign) and isinstance(a.targets[0], ast.Name):
            v = norm.deep_canon(a.value, mg.node)
            what = ROLE.get(v)
            if what is None and isinstance(a.value, ast.Call) and norm.call_name(a.value) in ("max", "min") and \
                    all(norm.deep_canon(x, mg.node) in ROLE for x in a.value.args):
                what = "%s of the two %ss" % (norm.call_name(a.value), "start" if "start" in v else "end")
            if what is None or isinstance(a.value, ast.Call) and norm.call_name(a.value).startswith("_comparable"):
                continue
            nchoices += 1
            facts = fm.at(n) or frozenset()
            ok = any("intersect" in t for (_, t) in facts)
            ctx.ob(mg, ok, "merged bound := %s   [choice between the operands' bounds]" % what,
                   detail="the containing range is chosen regardless of `intersect`: And of nested ranges widens to the outer one"
                   if not ok else "", loc=ctx.nodeloc(mg, a))
    if nchoices < 4:
        raise AnalysisError("RangeMixin.merge: only %d bound choices recognised" % nchoices)
    # exclusivity is read
    for mname in ("overlaps", "merge"):
        f = prog.method("query.ranges.RangeMixin", mname, inherited=False)
        rd = self_reads(prog, prog.cls("query.ranges.TermRange"), [mname])
        ctx.ob(f, {"startexcl", "endexcl", "start", "end"} <= rd, "%s() takes both bounds and both exclusivity flags into account" % mname,
               detail="reads %s" % sorted(rd))
    # comparable tuples carry the exclusivity
    for mname, attr in (("_comparable_start", "startexcl"), ("_comparable_end", "endexcl")):
        f = prog.method("query.ranges.RangeMixin", mname, inherited=False)
        rets = [r.value for r in returns_of(f) if isinstance(r.value, ast.Tuple)]
        ok = len(rets) == 2 and all(len(t.elts) == 2 for t in rets) and ("self." + attr) in norm.stmt_text(f.node)
        ctx.ob(f, ok, "%s() returns (bound, exclusivity rank) pairs" % mname)
    ov = prog.method("query.ranges.RangeMixin", "overlaps", inherited=False)
    cmps = [n for n in ast.walk(ov.node) if isinstance(n, ast.Compare) and isinstance(n.ops[0], (ast.Lt, ast.LtE, ast.Gt, ast.GtE))]
    sides = set()
    for c in cmps:
        sides.add(norm.canon(c.left))
        sides.add(norm.canon(c.comparators[0]))
    ctx.ob(ov, len(sides) == 4 and len(cmps) >= 4 and
           all(norm.deep_canon(norm.parse_expr(s_), ov.node).endswith(("_comparable_start()", "_comparable_end()")) for s_ in sides),
           "overlaps() compares the (bound, exclusivity) pairs, not bare bound values", detail=str(sorted(sides)))


# queries whose match set is NOT a subset of "documents that have field f" must not report a field,
# because CompoundQuery.normalize drops every clause whose field() is covered by a sibling Every(field)
FIELD_MUST_BE_NONE = {
    "query.wrappers.Not": "matches the documents that do NOT match the wrapped query",
}


@rule("C15", "R4", "K7", "normalize()/simplify() never raise, and clause absorption only sees fields of positive clauses",
      min_instances=10,
      clause="No Query.normalize/simplify/with_boost contains an explicit raise; every method normalize() invokes on an "
             "arbitrary sub-query resolves on every concrete Query class; Not.field() is None (normalize drops clauses "
             "by field() when a sibling Every(field) exists).")
def c15_r4(ctx):
    prog = ctx.prog
    qbase = prog.cls("query.qcore.Query")
    n = 0
    for cls in prog.subclasses(qbase):
        for m in ("normalize", "simplify", "with_boost"):
            f = cls.methods.get(m)
            if f is None:
                continue
            n += 1
            raises = [r for r in ast.walk(f.node) if isinstance(r, ast.Raise)]
            ctx.saw(f)
            ctx.ob(f, not raises, "%s() has no explicit raise" % m, detail="raises at line %s" % [r.lineno for r in raises] if raises else "")
    if n < 10:
        raise AnalysisError("only %d normalize/simplify methods found" % n)
    # methods called on arbitrary sub-queries
    nz = prog.method("query.compound.CompoundQuery", "normalize", inherited=False)
    needed = set()
    for c in norm.calls_in(nz.node):
        r = norm.receiver(c)
        if isinstance(r, ast.Name) and r.id in ("s", "q", "ss", "sub", "qq"):
            needed.add(norm.call_name(c))
    needed -= {"merge", "overlaps"}  # only invoked under isinstance(q, (TermRange, NumericRange))
    for cls in prog.subclasses(qbase, strict=True):
        missing = [m for m in sorted(needed) if prog.lookup(cls, m) is None]
        ctx.ob(cls, not missing, "defines what normalize() calls on sub-queries (%s)" % ", ".join(sorted(needed)),
               detail="missing: %s" % missing if missing else "", loc=cls.loc)
    for name, why in FIELD_MUST_BE_NONE.items():
        cls = prog.cls(name)
        f = prog.lookup(cls, "field")
        rets = [norm.canon(r.value) if r.value is not None else "None" for r in returns_of(f)]
        ctx.ob(cls, all(r == "None" for r in rets), "%s.field() returns None" % cls.name,
               detail="returns %s: %s, so a sibling Every(field) would make normalize() drop the clause" % (rets, why)
               if not all(r == "None" for r in rets) else "", loc=f.loc)


@rule("C15", "R5", "K4", "the &, | and - operators build And, Or and And([..., Not(...)])",
      min_instances=3,
      clause="Query.__and__/__or__/__sub__ construct exactly the documented compounds from (self, other) and normalize them.")
def c15_r5(ctx):
    prog = ctx.prog
    q = prog.cls("query.qcore.Query")
    want = {"__or__": "Or([self, query])", "__and__": "And([self, query])", "__sub__": "And([self, Not(query)])"}
    for m, w in want.items():
        f = q.methods.get(m)
        if f is None:
            raise AnalysisError("Query.%s vanished" % m)
        ctx.saw(f)
        rets = [norm.canon(r.value) for r in returns_of(f) if r.value is not None]
        ok = len(rets) == 1 and rets[0].replace("q", "query", 1) if False else len(rets) == 1
        txt = rets[0] if rets else ""
        ctx.ob(f, w.split("(")[0] + "([self, " in txt and txt.endswith(".normalize()") and
               (m != "__sub__" or "Not(" in txt), "%s builds %s and normalizes" % (m, w), detail=txt)


def _self_stores(f):
    """attribute names (and `attr[]` for item stores) of `self` written by the function, incl. setattr(self, ...)"""
    out = []
    al = norm.aliases(f.node) if isinstance(f.node, (ast.FunctionDef, ast.AsyncFunctionDef)) else {}
    for x in ast.walk(f.node):
        tgs = []
        if isinstance(x, ast.Assign):
            tgs = x.targets
        elif isinstance(x, (ast.AugAssign, ast.AnnAssign)):
            tgs = [x.target]
        elif isinstance(x, ast.Delete):
            tgs = x.targets
        elif isinstance(x, ast.Call) and isinstance(x.func, ast.Name) and x.func.id == "setattr" and x.args and \
                isinstance(x.args[0], ast.Name) and x.args[0].id == "self":
            out.append(("setattr", x))
        elif isinstance(x, ast.Call) and isinstance(x.func, ast.Attribute) and x.func.attr in ("update", "setdefault", "__setitem__") and \
                norm.canon(x.func.value) == "self.__dict__":
            out.append(("__dict__", x))
        for t in tgs:
            for y in ast.walk(t):
                if isinstance(y, ast.Attribute) and isinstance(y.ctx, (ast.Store, ast.Del)) and isinstance(y.value, ast.Name) and y.value.id == "self":
                    out.append((y.attr, x))
                if isinstance(y, ast.Subscript) and isinstance(y.ctx, (ast.Store, ast.Del)):
                    b = y.value
                    if isinstance(b, ast.Name) and b.id in al:
                        b = al[b.id]  # cache = self._cache ; cache[k] = v
                    if isinstance(b, ast.Attribute) and isinstance(b.value, ast.Name) and b.value.id == "self":
                        out.append((b.attr + "[]", x))
        # in-place container mutation through self or an alias of a self attribute
        if isinstance(x, ast.Call) and isinstance(x.func, ast.Attribute) and x.func.attr in MUTATORS:
            b = x.func.value
            if isinstance(b, ast.Name) and b.id in al:
                b = al[b.id]
            if isinstance(b, ast.Attribute) and isinstance(b.value, ast.Name) and b.value.id == "self":
                out.append((b.attr + "." + x.func.attr + "()", x))
    return out


CONSTRUCTION_METHODS = ("__init__", "__setstate__", "__new__")
MUTATORS = ("append", "extend", "insert", "add", "update", "setdefault", "pop", "popitem", "remove", "discard", "clear", "sort", "reverse")


@rule("C15", "R6", "K3", "query objects are immutable: no method other than the constructor stores anything on self",
      min_instances=40, also=("C01", "C19"),
      clause="A query object is evaluated against many readers (one per segment, before and after commits); matcher(), "
             "_btexts(), simplify(), estimate_size(), normalize() ... must depend only on their arguments, so no Query "
             "method outside __init__/__setstate__ assigns self.<attr>, self.<attr>[...] or setattr(self, ...): a "
             "memoised expansion would be reused for a different segment or generation.")
def c15_r6(ctx):
    prog = ctx.prog
    qbase = prog.cls("query.qcore.Query")
    n = 0
    for cls in [qbase] + prog.subclasses(qbase, strict=True):
        if cls.short.startswith("query.spans.") and cls.short.endswith("Matcher"):
            continue
        wrote = []
        for m, f in cls.methods.items():
            if m in CONSTRUCTION_METHODS:
                continue
            ctx.saw(f)
            for attr, node in _self_stores(f):
                wrote.append("%s() stores self.%s" % (m, attr))
        n += 1
        ctx.ob(cls, not wrote, "no method outside the constructor writes to self",
               detail="; ".join(sorted(set(wrote))) + " -- state kept on a query object leaks from one reader/segment to the next" if wrote else "",
               loc=cls.loc)
    # positive control: the detector sees a memoising method
    sample = ast.parse("class Q:\n    def _btexts(self, r):\n        self._cache[r.generation()] = 1\n        self._memo = 2\n").body[0].body[0]

    class _F(object):
        node = sample
    got = sorted(a for a, _ in _self_stores(_F))
    if got != ["_cache[]", "_memo"]:  # (the sample has no aliases / mutator calls)
        raise AnalysisError("C15-R6 positive control failed: %s" % got)
    if n < 40:
        raise AnalysisError("only %d query classes found" % n)


@rule("C15", "R7", "K4", "replace(fieldname, oldtext, newtext) substitutes only in the named field and only the named text",
      min_instances=4,
      clause="Every Query.replace override writes `newtext` into the copy only under `<copy>.fieldname == fieldname` and an "
             "equality of the replaced text with `oldtext` (the sibling implementations Term/FuzzyTerm/Variations/Phrase "
             "agree); composite queries forward all three arguments unchanged.")
def c15_r7(ctx):
    prog = ctx.prog
    qbase = prog.cls("query.qcore.Query")
    n = 0
    for cls in [qbase] + prog.subclasses(qbase, strict=True):
        f = cls.methods.get("replace")
        if f is None or len(f.params) != 4:
            continue
        n += 1
        ctx.saw(f)
        fname, old, new = f.params[1:4]
        fa = guards.Facts(f)
        for nd in fa.g.nodes:
            for frag in cfgmod.node_exprs(nd):
                uses = [x for x in ast.walk(frag) if isinstance(x, ast.Name) and x.id == new and isinstance(x.ctx, ast.Load)]
                if not uses:
                    continue
                # forwarding to the sub-queries' replace
                fwd = [c for c in norm.calls_in(frag) if (norm.call_name(c) in ("replace", "methodcaller"))]
                if fwd:
                    okf = all([norm.canon(a) for a in c.args[-3:]] == [fname, old, new] for c in fwd)
                    ctx.ob(f, okf, "forwards (fieldname, oldtext, newtext) unchanged to the sub-queries", loc=ctx.nodeloc(f, fwd[0]))
                    continue
                facts = set(fa.at(nd) or ())
                # facts established by short-circuit tests inside the same statement are not needed here: the stores are statements
                field_ok = any(p == "T" and "==" in t and ".fieldname" in t and fname in t for (p, t) in facts)
                text_ok = any(p == "T" and "==" in t and old in t for (p, t) in facts)
                ctx.ob(f, field_ok and text_ok, "`%s` is stored only under fieldname == %s and text == %s" % (new, fname, old),
                       detail="facts at the store: %s" % sorted(facts), loc=ctx.nodeloc(f, nd.ast))
    if n < 4:
        raise AnalysisError("only %d replace() implementations found" % n)


# what a binary operator means when one operand matches nothing (from the class docstrings / docs/source/querylang.rst)
NULL_TABLE = {
    "query.compound.AndNot": {"a": "NullQuery", "b": "a", "why": "nothing minus anything is nothing; a minus nothing is a"},
    "query.compound.AndMaybe": {"a": "NullQuery", "b": "a", "why": "the optional side only adds score"},
    "query.compound.Require": {"a": "NullQuery", "b": "NullQuery", "why": "documents must match BOTH sides; only a is scored"},
    "query.compound.Otherwise": {"a": "b", "b": "a", "why": "b is used when a matches nothing"},
}


@rule("C15", "R8", "K8", "binary operators treat a match-nothing operand according to the operator's meaning",
      min_instances=4,
      clause="For AndNot, AndMaybe, Require and Otherwise, normalize() evaluated on the two cases 'a normalises to NullQuery' "
             "and 'b normalises to NullQuery' (path conditions over `x is NullQuery` tests) returns what the table says: "
             "Require needs both sides, AndNot/AndMaybe keep a when b is empty and are empty when a is.")
def c15_r8(ctx):
    prog = ctx.prog
    from .. import shapes as S
    for cname, want in NULL_TABLE.items():
        cls = prog.cls(cname)
        f = prog.lookup(cls, "normalize")
        if f is None:
            raise AnalysisError("%s.normalize vanished" % cname)
        ctx.saw(f)
        sym, paths = S.paths(f)
        d = norm.definitions(f.node)
        # locals holding the normalised operands
        an = [k for k, v in d.items() if norm.canon(v) == "self.a.normalize()"]
        bn = [k for k, v in d.items() if norm.canon(v) == "self.b.normalize()"]
        if len(an) != 1 or len(bn) != 1:
            ctx.ob(cls, False, "normalize() normalises both operands into locals", loc=f.loc)
            continue
        a_, b_ = an[0], bn[0]
        atoms = {"(%s is qcore.NullQuery)" % a_: "a", "(%s is qcore.NullQuery)" % b_: "b"}
        for case in ("a", "b"):
            env = {"a": case == "a", "b": case == "b"}
            outs = set()
            unknown = False
            for conds, _, node in paths:
                if node is None or node.ast.value is None:
                    continue
                ok = True
                for pol, txt in conds:
                    if txt in atoms:
                        if (pol == "T") != env[atoms[txt]]:
                            ok = False
                    elif "NullQuery" in txt:
                        unknown = True
                if ok:
                    v = norm.canon(node.ast.value)
                    v = {a_: "a", b_: "b", "qcore.NullQuery": "NullQuery"}.get(v, v)
                    outs.add(v)
            ctx.ob(cls, not unknown and outs == {want[case]}, "%s normalises to NullQuery -> result %s" % (case, want[case]),
                   detail="returns %s (%s)" % (sorted(outs), want["why"]), loc=f.loc)


@rule("C15", "R14", "K8", "negating a query that matches nothing matches everything, also after normalize()",
      min_instances=1,
      clause="Not.normalize(), on the path where the normalised sub-query is NullQuery, returns a match-everything query (Every), as the "
             "un-normalised Not(NullQuery) does through InverseMatcher over an empty child; returning the NullQuery itself turns "
             "'everything' into 'nothing' (x OR NOT <nothing> loses every document that x does not match).")
def c15_r14(ctx):
    prog = ctx.prog
    f = prog.method("query.wrappers.Not", "normalize", inherited=False)
    ctx.saw(f)
    from .. import shapes as S
    sym, pths = S.paths(f)
    d = norm.definitions(f.node)
    qn = [k for k, v in d.items() if norm.canon(v) == "self.query.normalize()"]
    if len(qn) != 1:
        ctx.ob(f, False, "normalize() normalises the sub-query into a local")
        return
    outs = set()
    for conds, _, node in pths:
        if node is None or node.ast.value is None:
            continue
        if ("T", "(%s is qcore.NullQuery)" % qn[0]) in conds:
            outs.add(norm.canon(node.ast.value))
    ok = bool(outs) and all(o.startswith(("qcore.Every(", "Every(")) for o in outs)
    ctx.ob(f, ok, "sub-query normalises to NullQuery -> result Every()", detail="returns %s" % sorted(outs))


RECON_OK = {
    # (function, constructor parameter): why the re-created object need not carry it
    ("query.spans.Span.to", "boost"): "a span covering two spans has no single boost to inherit; Span.boost is only set by payload-aware subclasses",
}


@rule("C15", "R9", "K4", "a query re-created by a rewrite keeps every setting of the original",
      min_instances=25, also=("C09",),
      clause="Wherever a query class builds a new object of its own class (self.__class__(...), or its own name) -- normalize, "
             "apply/accept/replace, simplify, with_boost, _rewrap ... -- the call fits the constructor of every concrete class "
             "that inherits the method and binds every constructor parameter that the constructor stores (minmatch, scale, "
             "tiebreak, constantscore, per_parent_limit, score_fn, boost ...), or copies the stored attribute onto the result "
             "afterwards (the Or.normalize idiom); an override delegating to the base method restores what its own "
             "constructor adds.")
def c15_r9(ctx):
    prog = ctx.prog
    qbase = prog.cls("query.qcore.Query")
    classes = [c for c in prog.subclasses(qbase)]
    span = prog.cls("query.spans.Span")
    n = reconstruction_check(ctx, prog, classes + [span], RECON_OK)
    if n < 25:
        raise AnalysisError("only %d query re-construction sites found" % n)


ARGNAME_OK = {
    # (caller, callee, parameter, argument): why the crossed names are intended
    ("matching.binary.UnionMatcher.replace", "matching.binary.AndMaybeMatcher.__init__", "a", "b"):
        "deliberate: when `a` cannot reach the minimum quality on its own, `b` becomes the required clause and `a` the optional one",
    ("matching.binary.UnionMatcher.replace", "matching.binary.AndMaybeMatcher.__init__", "b", "a"): "same call",
    ("qparser.dateparse.Sequence.parse", "util.times.fill_in", "basedate", "at"):
        "`at` is the parser's name for the reference date, which is what fill_in calls basedate",
    ("qparser.dateparse.Bag.parse", "util.times.fill_in", "basedate", "at"): "same",
}


@rule("C15", "R10", "K4", "an argument named after a parameter of the callee is bound to that parameter",
      min_instances=1, also=("C11", "C16", "C09"),
      clause="For every call whose callee is resolved exactly (constructors included, and self.__class__(...) against the own "
             "constructor): if an argument is a plain name N or self.N, and the callee has a parameter called N, then the argument is "
             "bound to N and not to another parameter (a dropped or inserted positional argument shifts the rest: "
             "Sequence(subs, self.slop, self.boost) puts the boost into `ordered`).  The reviewed crossings are listed.")
def c15_r10(ctx):
    prog = ctx.prog
    C = calls_of(prog)
    n = 0
    for f in prog.functions.values():
        for c in norm.calls_in(f.node):
            target = None
            if norm.canon(c.func) in ("self.__class__", "type(self)") and f.cls is not None:
                target = prog.lookup(f.cls, "__init__")
            else:
                r = C.resolve(f, c)
                if r.kind == "exact" and len(r.targets) == 1:
                    target = r.targets[0]
            if target is None:
                continue
            is_cm = "classmethod" in target.decorators
            unbound = isinstance(c.func, ast.Attribute) and c.args and isinstance(c.args[0], ast.Name) and c.args[0].id == "self" \
                and not is_cm and norm.canon(c.func.value) != "self" and not isinstance(c.func.value, ast.Call) and target.cls is not None
            m, probs = bind_args(c, target, skip_self=not unbound)
            if not m:
                continue
            n += 1
            a = target.node.args
            allp = set(x.arg for x in a.args) | set(x.arg for x in a.kwonlyargs)
            for p, e in m.items():
                N = None
                if isinstance(e, ast.Name):
                    N = e.id
                elif isinstance(e, ast.Attribute) and isinstance(e.value, ast.Name) and e.value.id == "self":
                    N = e.attr
                if N is None or N in ("self", "cls") or N == p or N.lstrip("_") == p.lstrip("_") or N not in allp:
                    continue
                if (f.short, target.short, p, N) in ARGNAME_OK:
                    continue
                ctx.saw(f)
                ctx.ob(f, False, "`%s` is passed to %s as `%s`, although %s has a parameter `%s`" % (norm.canon(e), target.short, p, target.short, N),
                       detail="a positional argument was dropped, inserted or swapped: every later argument lands one parameter off",
                       loc=ctx.nodeloc(f, c))
    ctx.ob("resolved calls", n >= 900, "%d exactly resolved calls had their arguments matched against the callee's parameter names" % n)
    if n < 900:
        raise AnalysisError("only %d calls bound" % n)


def _polarity_uses(e, sign, out, fnode, depth=0):
    """(callee name, sign, text) for every size estimate inside `e`; sign is +1 where the value of `e` grows with it, -1 where it
    shrinks (right operand of `-`, unary minus, divisor), 0 where unknown"""
    if depth > 8:
        return
    if isinstance(e, ast.BinOp):
        if isinstance(e.op, ast.Sub):
            _polarity_uses(e.left, sign, out, fnode, depth)
            _polarity_uses(e.right, -sign, out, fnode, depth)
        elif isinstance(e.op, (ast.Div, ast.FloorDiv, ast.Mod)):
            _polarity_uses(e.left, sign, out, fnode, depth)
            _polarity_uses(e.right, -sign, out, fnode, depth)
        else:
            _polarity_uses(e.left, sign, out, fnode, depth)
            _polarity_uses(e.right, sign, out, fnode, depth)
        return
    if isinstance(e, ast.UnaryOp) and isinstance(e.op, ast.USub):
        _polarity_uses(e.operand, -sign, out, fnode, depth)
        return
    if isinstance(e, ast.Call):
        nm = norm.call_name(e)
        if nm in ("estimate_size", "estimate_min_size", "doc_count", "doc_count_all", "doc_frequency"):
            out.append((nm, sign, norm.canon(e)))
            return
        for a in list(e.args) + [k.value for k in e.keywords]:
            _polarity_uses(a, sign if nm in ("min", "max", "sum", "int", "float", "len", "abs", "round") else 0, out, fnode, depth)
        return
    if isinstance(e, (ast.GeneratorExp, ast.ListComp)):
        _polarity_uses(e.elt, sign, out, fnode, depth)
        return
    if isinstance(e, ast.IfExp):
        _polarity_uses(e.body, sign, out, fnode, depth)
        _polarity_uses(e.orelse, sign, out, fnode, depth)
        return
    if isinstance(e, ast.Name):
        for v in norm.assigned_names(fnode).get(e.id, []):
            if v is not None:
                _polarity_uses(v, sign, out, fnode, depth + 1)
        for st in ast.walk(fnode):
            if isinstance(st, ast.AugAssign) and isinstance(st.target, ast.Name) and st.target.id == e.id:
                _polarity_uses(st.value, -sign if isinstance(st.op, ast.Sub) else sign, out, fnode, depth + 1)


@rule("C15", "R12", "K8", "estimate_size() is built from upper bounds only, each in a position where more means more",
      min_instances=8, also=("C12",),
      clause="estimate_size() promises an upper bound on the number of matching documents (the collectors and the Or matcher "
             "selection rely on it).  In every estimate_size() of a query class the quantities it is computed from -- a "
             "sub-query's estimate_size(), doc_frequency(), doc_count() -- appear only where the result grows with them (never "
             "subtracted, negated or divided by: an over-estimate there would push the result below the true count), and "
             "estimate_min_size() (a lower bound) does not appear at all.")
def c15_r12(ctx):
    prog = ctx.prog
    qbase = prog.cls("query.qcore.Query")
    n = 0
    for cls in prog.subclasses(qbase):
        f = cls.methods.get("estimate_size")
        if f is None or is_abstract_body(f):
            continue
        n += 1
        ctx.saw(f)
        bad = []
        for r in returns_of(f):
            if r.value is None:
                continue
            out = []
            _polarity_uses(r.value, 1, out, f.node)
            for nm, sign, text in out:
                if nm == "estimate_min_size":
                    bad.append("%s is a lower bound" % text)
                elif sign < 0:
                    bad.append("%s is subtracted / divided by" % text)
                elif sign == 0:
                    bad.append("%s is passed through a function of unknown direction" % text)
        ctx.ob(f, not bad, "estimate_size() grows with every estimate it is computed from", detail="; ".join(bad[:3]))
    if n < 8:
        raise AnalysisError("only %d estimate_size methods found" % n)


LAZY_BUILTINS = ("map", "filter", "zip", "iter", "reversed", "enumerate")
MUTATING_METHODS = ("append", "extend", "add", "update", "insert", "pop", "remove", "clear", "setdefault", "discard", "sort", "popitem")


def _is_lazy(e):
    return isinstance(e, ast.GeneratorExp) or (isinstance(e, ast.Call) and isinstance(e.func, ast.Name) and e.func.id in LAZY_BUILTINS)


@rule("C15", "R13", "K9", "long-lived state is neither a one-shot iterator nor a default object shared between calls",
      min_instances=1, also=("C19", "C01", "C11"),
      clause="(1) No attribute is assigned a generator expression or a map()/filter()/zip()/iter() object, and no such object is passed to a "
             "project class's constructor parameter that the constructor stores as it is: a query rebuilt with map(fn, self.qs) works once "
             "and is empty the second time it is asked for a matcher (second segment, second search).  (2) A parameter whose default is a "
             "mutable object ([] {} set() ...) is not mutated in the function: the default is created once per process, so results of one "
             "call leak into the next.")
def c15_r13(ctx):
    prog = ctx.prog
    C = calls_of(prog)
    probe = ast.parse("class K:\n    def __init__(self, qs):\n        self.qs = map(str, qs)\n    def f(self, seen=set()):\n        seen.add(1)\n")
    pf = [n for n in ast.walk(probe) if isinstance(n, ast.FunctionDef)]
    if not any(isinstance(st, ast.Assign) and _is_lazy(st.value) for st in ast.walk(pf[0])):
        raise AnalysisError("C15-R13 detector does not match its own positive example")
    n = 0
    for f in prog.functions.values():
        if f.module.name.startswith(("whoosh.lang", "whoosh.support")):
            continue
        n += 1
        # (1a) attribute := lazy iterator
        for st in ast.walk(f.node):
            if isinstance(st, ast.Assign) and _is_lazy(st.value) and any(isinstance(t, ast.Attribute) for t in st.targets):
                ctx.saw(f)
                ctx.ob(f, False, "`%s` does not store a one-shot iterator" % norm.stmt_text(st)[:70],
                       detail="the attribute can be iterated once; every later reader finds it empty", loc=ctx.nodeloc(f, st))
        # (1b) lazy iterator handed to a constructor parameter that is stored as it is
        for c in norm.calls_in(f.node):
            lazy_args = [a for a in list(c.args) + [k.value for k in c.keywords] if _is_lazy(a)]
            if not lazy_args:
                continue
            target = None
            if norm.canon(c.func) in ("self.__class__", "type(self)") and f.cls is not None:
                target = prog.lookup(f.cls, "__init__")
            else:
                r = C.resolve(f, c)
                if r.kind == "exact" and len(r.targets) == 1 and r.targets[0].name == "__init__":
                    target = r.targets[0]
            if target is None:
                continue
            m, probs = bind_args(c, target)
            if not m:
                continue
            for p, a in m.items():
                if not _is_lazy(a):
                    continue
                stored = [st for st in ast.walk(target.node) if isinstance(st, ast.Assign) and isinstance(st.value, ast.Name) and st.value.id == p
                          and any(isinstance(t, ast.Attribute) and isinstance(t.value, ast.Name) and t.value.id == "self" for t in st.targets)]
                if stored:
                    ctx.saw(f)
                    ctx.ob(f, False, "%s is given a list, not a one-shot iterator, for `%s`" % (target.short, p),
                           detail="%s stores the argument as it is (%s); %s can be consumed only once" % (
                               target.short, norm.stmt_text(stored[0]), norm.canon(a)[:50]), loc=ctx.nodeloc(f, c))
        # (2) mutable default mutated
        a = f.node.args
        pos = [x.arg for x in a.args]
        defaults = dict(zip(pos[len(pos) - len(a.defaults):], a.defaults))
        for k_, d_ in zip(a.kwonlyargs, a.kw_defaults):
            if d_ is not None:
                defaults[k_.arg] = d_
        for p, d in defaults.items():
            mutable = isinstance(d, (ast.List, ast.Dict, ast.Set)) or (
                isinstance(d, ast.Call) and isinstance(d.func, ast.Name) and d.func.id in ("set", "list", "dict", "defaultdict", "bytearray", "array"))
            if not mutable:
                continue
            rebinds = any(isinstance(x, ast.Name) and x.id == p and isinstance(x.ctx, ast.Store) for x in ast.walk(f.node))
            muts = [c for c in norm.calls_in(f.node) if isinstance(c.func, ast.Attribute) and c.func.attr in MUTATING_METHODS
                    and isinstance(c.func.value, ast.Name) and c.func.value.id == p]
            subs = [s_ for s_ in ast.walk(f.node) if isinstance(s_, ast.Subscript) and isinstance(s_.ctx, (ast.Store, ast.Del))
                    and isinstance(s_.value, ast.Name) and s_.value.id == p]
            aug = [s_ for s_ in ast.walk(f.node) if isinstance(s_, ast.AugAssign) and isinstance(s_.target, ast.Name) and s_.target.id == p]
            if (muts or subs or aug) and not rebinds:
                ctx.saw(f)
                ctx.ob(f, False, "the mutable default of `%s` is not mutated" % p,
                       detail="the default object is shared by all calls of %s: what one call adds, the next call sees" % f.short,
                       loc=ctx.nodeloc(f, (muts or subs or aug)[0]))
    ctx.ob("whole program", n > 2000, "%d functions scanned for one-shot iterators kept as state and mutated default arguments" % n)


@rule("C15", "R15", "K10", "a query class that defines __eq__ keeps its instances hashable",
      min_instances=20, also=("C01",),
      clause="Python sets __hash__ to None in a class body that defines __eq__ without __hash__. CompoundQuery.normalize() puts every "
             "clause into a set (duplicate removal) and the &, |, - operators and simplify() go through it; queries are dictionary keys "
             "in the collectors. So every Query subclass whose body defines __eq__ defines (or assigns) __hash__ in the same body.")
def c15_r15(ctx):
    prog = ctx.prog
    Q = prog.cls("query.qcore.Query")
    n = 0
    for K in prog.subclasses(Q):
        names = set()
        for st in K.node.body:
            if isinstance(st, (ast.FunctionDef, ast.AsyncFunctionDef)):
                names.add(st.name)
            elif isinstance(st, ast.Assign):
                names.update(t.id for t in st.targets if isinstance(t, ast.Name))
        n += 1
        ctx.ob(K, not ("__eq__" in names and "__hash__" not in names),
               "%s stays hashable (no __eq__ without __hash__ in one class body)" % K.name,
               detail="the class body defines __eq__ but no __hash__: Python makes the instances unhashable, normalize()/set()/dict keys "
                      "raise TypeError", loc=K.loc)
    if n < 20:
        raise AnalysisError("only %d query classes" % n)


@rule("C15", "R16", "K2", "Wildcard.normalize rewrites to Term/Prefix only a text free of every glob metacharacter the class declares",
      min_instances=1, also=("C01",),
      clause="Wildcard.SPECIAL_CHARS (the set the class itself uses to find the literal prefix of a pattern) lists the characters "
             "fnmatch treats as operators. On every path of normalize() to `return Term(...)` each of them is known to be absent from "
             "the text; on every path to `return Prefix(...)` each of them other than the trailing `*` is. `[ab]` without the check "
             "is rewritten to the literal term '[ab]' and stops matching 'a' and 'b'. Idioms that test the whole set at once "
             "(any(...SPECIAL_CHARS...), set intersection) are accepted as covering it.")
def c15_r16(ctx):
    prog = ctx.prog
    cls = prog.cls("query.terms.Wildcard")
    f = prog.method("query.terms.Wildcard", "normalize", inherited=False)
    ctx.saw(f)
    sc = cls.attrs.get("SPECIAL_CHARS")
    chars = None
    if sc is not None:
        for x in ast.walk(sc):
            if isinstance(x, ast.Constant) and isinstance(x.value, str):
                chars = sorted(set(x.value))
    if not chars:
        raise AnalysisError("Wildcard.SPECIAL_CHARS is no longer a literal set of characters")
    fa = guards.Facts(f, textfn=lambda e: norm.deep_canon(e, f.node))
    n = 0
    for node in fa.g.nodes:
        a = node.ast
        if not isinstance(a, ast.Return) or a.value is None:
            continue
        v = norm.inline_defs(a.value, f.node)
        if not (isinstance(v, ast.Call) and getattr(v.func, "id", getattr(v.func, "attr", None)) in ("Term", "Prefix")):
            continue
        kind = getattr(v.func, "id", None) or v.func.attr
        facts = fa.at(node) or set()
        n += 1
        whole = any("SPECIAL_CHARS" in t for _p, t in facts)
        missing = []
        for c in chars:
            if kind == "Prefix" and c == "*":
                continue
            want = "(%r in self.text)" % c
            if ("F", want) not in facts and ("F", want.replace("'", '"')) not in facts:
                missing.append(c)
        ok = whole or not missing
        ctx.ob(f, ok, "the text rewritten to %s holds none of the metacharacters %s" % (kind, "".join(chars)),
               detail="" if ok else "not excluded on this path: %s -- a pattern using it is rewritten to a literal %s and changes what it "
                                    "matches" % (" ".join(repr(c) for c in missing), kind),
               loc=ctx.nodeloc(f, a))
    if n == 0:
        ctx.ob(f, True, "normalize() no longer rewrites a Wildcard to Term or Prefix")


@rule("C15", "R17", "K2", "a rewrite reads `.boost` of a sub-query it did not build only where the sub-query is known to have one",
      min_instances=1,
      clause="Not every query class binds `boost` (span queries, NestedParent/NestedChildren, ConstantScoreQuery, WeightingQuery, "
             "ColumnQuery do not; Query.all_tokens() says so itself with `hasattr(self, 'boost')`). In whoosh/query/*.py every read of "
             "`x.boost` where x is a sub-query taken from a clause list is guarded by hasattr(x, 'boost') or by an isinstance test "
             "against a class that binds it (including `isinstance(x, self.__class__)` in a class that does). Otherwise normalize() "
             "of a nested Or/And holding such a clause raises AttributeError instead of returning an equivalent query.")
def c15_r17(ctx):
    prog = ctx.prog
    qbase = prog.cls("query.qcore.Query")

    def binds_boost(c):
        if isinstance(c, str):
            return False
        return any((not isinstance(k, str)) and ("boost" in k.attrs or "boost" in self_attr_assignments(prog, k, inherited=False))
                   for k in prog.mro(c))
    n = 0
    for f in sorted(prog.functions.values(), key=lambda f: f.qualname):
        if not f.module.name.startswith("whoosh.query."):
            continue
        reads = [x for x in ast.walk(f.node) if isinstance(x, ast.Attribute) and x.attr == "boost" and isinstance(x.ctx, ast.Load)
                 and isinstance(x.value, ast.Name) and x.value.id != "self"]
        if not reads:
            continue
        parents = {}
        for p in ast.walk(f.node):
            for ch in ast.iter_child_nodes(p):
                parents[id(ch)] = p
        # names bound to objects built here (q = self.copy(), q = Cls(...), q = self.__class__(...)) carry the builder's type
        built = set()
        for st in ast.walk(f.node):
            if isinstance(st, ast.Assign) and isinstance(st.value, ast.Call):
                fn = st.value.func
                if (isinstance(fn, ast.Attribute) and fn.attr in ("copy", "__class__", "with_boost", "normalize") and
                        norm.canon(fn.value).startswith("self")) or (isinstance(fn, ast.Name) and fn.id[:1].isupper()):
                    for t in st.targets:
                        if isinstance(t, ast.Name):
                            built.add(t.id)
        fa = None
        for x in reads:
            name = x.value.id
            if name in built:
                continue
            # only names that come out of a clause list (loop / comprehension variable, element taken by index) are of interest:
            # `other` in __eq__ is compared behind a class test, parameters carry their caller's knowledge
            src_ok = False
            for st in ast.walk(f.node):
                if isinstance(st, (ast.For, ast.comprehension)):
                    if name in norm.names_in(st.target):
                        src_ok = True
                elif isinstance(st, ast.Assign) and any(isinstance(t, ast.Name) and t.id == name for t in st.targets):
                    if isinstance(st.value, ast.Subscript):
                        src_ok = True
            if not src_ok:
                continue
            n += 1
            ctx.saw(f)

            def atom_ok(pol, a):
                if pol != "T" or not isinstance(a, ast.Call) or not isinstance(a.func, ast.Name):
                    return False
                if a.func.id == "hasattr" and len(a.args) == 2 and norm.canon(a.args[0]) == name \
                        and isinstance(a.args[1], ast.Constant) and a.args[1].value == "boost":
                    return True
                if a.func.id == "isinstance" and len(a.args) == 2 and norm.canon(a.args[0]) == name:
                    t = a.args[1]
                    if norm.canon(t) in ("self.__class__", "type(self)"):
                        return f.cls is not None and binds_boost(f.cls)
                    elts = t.elts if isinstance(t, ast.Tuple) else [t]
                    cs = [prog.resolve_in_func(f, e) for e in elts]
                    return bool(cs) and all(c is not None and hasattr(c, "methods") and binds_boost(c) for c in cs)
                return False
            ok = False
            # expression-level guards: IfExp test, `a and b`, comprehension ifs, enclosing if statements
            cur = x
            while id(cur) in parents and not ok:
                par = parents[id(cur)]
                tests = []
                if isinstance(par, ast.IfExp) and cur is par.body:
                    tests.append(par.test)
                elif isinstance(par, ast.BoolOp) and isinstance(par.op, ast.And):
                    tests.extend(par.values[:par.values.index(cur)] if cur in par.values else [])
                elif isinstance(par, (ast.ListComp, ast.GeneratorExp, ast.SetComp, ast.DictComp)):
                    for g in par.generators:
                        tests.extend(g.ifs)
                elif isinstance(par, (ast.If, ast.While)) and cur in par.body:
                    tests.append(par.test)
                for t in tests:
                    if any(atom_ok(pol, a) for pol, a in guards.atoms(t, "T")):
                        ok = True
                cur = par
            if not ok:
                if fa is None:
                    fa = guards.Facts(f)
                node = fa.node_of(x)
                facts = fa.at(node) if node is not None else None
                for pol, text in (facts or ()):
                    try:
                        a = norm.parse_expr(text)
                    except Exception:
                        continue
                    if atom_ok(pol, a):
                        ok = True
            ctx.ob(f, ok, "`%s.boost` is read where %s is known to have a boost" % (name, name),
                   detail="" if ok else "nothing on the way to `%s` establishes hasattr(%s, 'boost') or a class that binds it: "
                                        "AttributeError for span, nested, constant-score and column queries"
                                        % (norm.canon(parents.get(id(x), x)), name),
                   loc=ctx.nodeloc(f, x))
    if n == 0:
        ctx.ob("whoosh.query", True, "no rewrite reads the boost of a foreign sub-query")


def _nullquery_filters(func):
    """statements of func that drop NullQuery elements from a collection of sub-queries"""
    out = []
    for x in ast.walk(func.node):
        if isinstance(x, (ast.ListComp, ast.GeneratorExp, ast.SetComp)):
            for gen in x.generators:
                for cond in gen.ifs:
                    t = norm.canon(cond)
                    if "NullQuery" in t and isinstance(x.elt, ast.Name) and x.elt.id in norm.names_in(gen.target):
                        out.append(x)
        elif isinstance(x, ast.Call) and norm.call_name(x) == "filter" and "NullQuery" in norm.canon(x):
            out.append(x)
        elif isinstance(x, ast.If) and "NullQuery" in norm.canon(x.test) and x.body and isinstance(x.body[-1], ast.Continue) and \
                isinstance(x.test, ast.Compare) and isinstance(x.test.ops[0], (ast.Is, ast.Eq)):
            out.append(x)
    return out


@rule("C15", "R18", "K6", "only a disjunction may drop a clause that matches nothing",
      min_instances=1,
      clause="NullQuery is the query that matches no document.  Dropping it from the clauses of a disjunction changes nothing; dropping "
             "it from anything that requires ALL its clauses (a Sequence, an Ordered, a span-near, a phrase of sub-queries) turns a "
             "query that matches nothing into one that matches the remaining clauses.  Outside CompoundQuery.normalize (whose one "
             "filter is judged by C15-R3) every statement of whoosh.query that filters NullQuery elements out of a collection lies "
             "in a class whose matcher is a union (Or, DisjunctionMax, SpanOr).  Expected count on the tree: zero sites outside; the "
             "detector is checked against a built-in example on every run.")
def c15_r18(ctx):
    prog = ctx.prog
    cq = prog.method("query.compound.CompoundQuery", "normalize", inherited=False)
    probe = ast.parse("def normalize(self):\n    subqs = [q.normalize() for q in self.subqueries]\n"
                      "    subqs = [q for q in subqs if q is not qcore.NullQuery]\n    for q in subqs:\n        if q is qcore.NullQuery:\n"
                      "            continue\n    return subqs\n").body[0]

    class _F(object):
        node = probe
    if len(_nullquery_filters(_F)) != 2:
        raise AnalysisError("C15-R18 detector does not match its own positive example")
    ctx.saw(cq)
    disj = set()
    for nm in ("query.compound.Or", "query.compound.DisjunctionMax", "query.spans.SpanOr"):
        try:
            disj |= set(c.qualname for c in prog.subclasses(prog.cls(nm), strict=False))
        except AnalysisError:
            pass
    n = 0
    for f in sorted(prog.functions.values(), key=lambda f_: f_.qualname):
        if not f.module.name.startswith("whoosh.query") or f is cq:
            continue
        n += 1
        for x in _nullquery_filters(f):
            ok = f.cls is not None and f.cls.qualname in disj
            ctx.ob(f, ok, "NullQuery clauses are dropped only from a disjunction",
                   detail="" if ok else "`%s` removes the clause that matches nothing from %s, which needs all of its clauses: the "
                   "rewritten query matches what the remaining clauses match" % (norm.canon(x)[:90], f.cls.name if f.cls else f.name),
                   loc=ctx.nodeloc(f, x))
    ctx.ob("whoosh.query", True, "%d functions of the query package examined for NullQuery filters" % n)
