"""C01 -- search returns exactly the documents that satisfy the query.

R1/R2 are shared with C05 (alignment after quality skips) and C11 (cursor
faithfulness under arbitrary call sequences): they are per-method obligations
and therefore independent of the calling sequence.
"""

import ast
import re

from ..report import rule
from .. import pm, norm, cfg as cfgmod, guards, matchers as M
from ..traces import Tracer, fmt, last_index
from ..typestate import TypeState
from ..model import AnalysisError
from .common import calls_of, find_calls, returns_of, is_abstract_body, bind_args

INLINE_NAMES = ("__init__", "_find_first", "_first_b")


def _id_cmp_kind(e, al):
    """'ne' / 'eq' if e compares the ids of two children, else None."""
    if isinstance(e, ast.Compare) and len(e.ops) == 1 and isinstance(e.ops[0], (ast.Eq, ast.NotEq)):
        l = norm.canon(e.left, al)
        r = norm.canon(e.comparators[0], al)
        if l.endswith(".id()") and r.endswith(".id()"):
            return "ne" if isinstance(e.ops[0], ast.NotEq) else "eq"
    return None


def align_tracer(prog, cls, spec):
    helpers = [h for h in spec["realign"] if not h.startswith("cache:") and h != "follow"]
    cache_attrs = [h.split(":", 1)[1] for h in spec["realign"] if h.startswith("cache:")]
    follow_mode = "follow" in spec["realign"]
    is_cache_kind = bool(cache_attrs)
    ctor_realign = spec.get("ctor_realign", [])

    def classify(func, call, res, concrete):
        name = norm.call_name(call)
        if name in ctor_realign and isinstance(call.func, ast.Name):
            return "realign"
        if name is None or not isinstance(call.func, ast.Attribute):
            return None
        al = norm.aliases(func.node)
        recv = norm.canon(call.func.value, al)
        # realign helper call: self._find_next() / self.child._find_next()
        for h in helpers:
            if "." in h:
                attr, hn = h.split(".")
                if name == hn and recv == "self." + attr:
                    return "realign"
            elif name == h and recv == "self" and h not in INLINE_NAMES:
                return "realign"
        if is_cache_kind and name == "id" and recv == "self":
            return "recache"
        if name in M.CURSOR_MOVES:
            lv = M.loop_vars_over_children(func.node, spec, al)
            ch = M.child_of_receiver(recv, spec, lv)
            if ch is not None:
                if follow_mode and ch == "b" and name == "skip_to" and call.args and \
                        "self.a.id()" in norm.canon(call.args[0], al):
                    return "realign"
                return "adv:%s.%s" % (ch, name)
        return None

    def follow(func, call, res, concrete):
        name = norm.call_name(call)
        if name in INLINE_NAMES and res.kind in ("exact", "cha") and res.targets:
            out = []
            for t in res.targets:
                if t.cls is None:
                    continue
                if name == "__init__" and func.name != "__init__":
                    continue
                out.append((t, concrete))
            return out[:1] if res.kind == "exact" else []
        return []

    def stmt_event(func, node):
        a = node.ast
        if node.kind != "stmt":
            return None
        targets = []
        if isinstance(a, ast.Assign):
            targets = [(t, a.value) for t in a.targets]
        elif isinstance(a, ast.AugAssign):
            targets = [(a.target, None)]
        evs = []
        for t, v in targets:
            if isinstance(t, ast.Attribute) and isinstance(t.value, ast.Name) and t.value.id == "self":
                if t.attr in cache_attrs and isinstance(v, ast.Constant) and v.value is None:
                    evs.append("realign")
                elif t.attr in spec["own"] and func.name not in spec["realign"]:
                    evs.append("adv:own.%s" % t.attr)
        return evs or None

    def edge_event(func, node, label):
        if node.kind != "test" or not isinstance(label, tuple):
            return None
        al = norm.aliases(func.node)
        e = node.ast
        k = _id_cmp_kind(e, al)
        if k is not None:
            return "%s:ids_%s" % (label[0], k)
        t = norm.canon(e, al)
        if ".is_active()" in t:
            return "%s:act" % label[0]
        if isinstance(e, ast.Name) and _activity_flag(func.node, e.id):
            return "%s:act" % label[0]
        return None

    is_cache = bool(cache_attrs)

    def delta(state, ev):
        if not isinstance(ev, str):
            return state
        if is_cache:
            # N: nothing happened, I: cache invalidated, D: advanced without invalidation
            if ev.startswith("adv:"):
                return "I" if state == "I" else "D"
            if ev == "realign":
                return "I"
            if ev == "recache":
                return "N" if state == "I" else state
            return state
        # C: aligned, D: a cursor moved since the last realignment, X: a cursor is known exhausted
        if state == "X":
            return "X"
        if ev.startswith("adv:"):
            return "D"
        if ev == "realign":
            return "C"
        if _excused(ev, spec):
            return "X" if ev == "F:act" else "C"
        return state

    ts = TypeState(prog, calls_of(prog), delta, classify, follow, stmt_event=stmt_event,
                   edge_event=edge_event, max_depth=3)
    ts.all_states = ("N", "I", "D") if is_cache else ("C", "D", "X")
    ts.is_cache = is_cache
    return ts


def _activity_flag(funcnode, name):
    """`name` is a boolean flag that is set to True only under an is_active() test (and otherwise only to False): testing it is
    testing whether some cursor is still active  (`still_active = False; for m in ms: ... if m.is_active(): still_active = True`)"""
    vals = norm.assigned_names(funcnode).get(name, [])
    if not vals or not all(isinstance(v, ast.Constant) and isinstance(v.value, bool) for v in vals):
        return False
    if not any(v.value is True for v in vals):
        return False
    parents = {}
    for p_ in ast.walk(funcnode):
        for ch in ast.iter_child_nodes(p_):
            parents[id(ch)] = p_
    for st in ast.walk(funcnode):
        if isinstance(st, ast.Assign) and any(isinstance(t, ast.Name) and t.id == name for t in st.targets) \
                and isinstance(st.value, ast.Constant) and st.value.value is True:
            x = st
            ok = False
            while id(x) in parents:
                x = parents[id(x)]
                if isinstance(x, ast.If) and ".is_active()" in norm.canon(x.test):
                    ok = True
                    break
            if not ok:
                return False
    return True


def _excused(ev, spec):
    if ev == "F:act":
        return True
    if "ids_equal" in spec["excuse"] and ev in ("F:ids_ne", "T:ids_eq"):
        return True
    if "sub_active" in spec["excuse"] and ev == "T:act":
        return True
    return False


@rule("C01", "R1", "K1", "advance => realign: every cursor move of a composite matcher re-establishes its invariant",
      min_instances=25, also=("C05", "C11"),
      clause="For every composite matcher class and every mutator it defines or inherits (__init__, reset, "
             "next, skip_to, skip_to_quality), each path that advances a child cursor (or the own cursor) "
             "reaches the class's realignment step afterwards, unless it passed a test showing a cursor "
             "inactive (or, for intersections, the ids already equal).",
      assumes=["alignment specs (children / helper / accepted excuses) are a frozen table per base class"])
def c01_r1(ctx):
    prog = ctx.prog
    M.validate_specs(prog)
    for cls in M.matcher_classes(prog):
        owner, spec = M.spec_for(prog, cls)
        if spec is None:
            continue
        tr = align_tracer(prog, cls, spec)
        for m in M.MUTATORS:
            f = prog.lookup(cls, m)
            if f is None or is_abstract_body(f):
                continue
            if m == "skip_to_quality" and M.constant_false_sbq(prog, cls):
                continue  # never called: the collector checks supports_block_quality()
            # only report a (class, method) pair once per defining function and spec owner
            ctx.saw(f)
            # __init__: children arrive in an arbitrary state => start dirty
            if tr.is_cache:
                s0 = "N"
            else:
                s0 = "D" if m == "__init__" else "C"
            exits = tr.run(f, cls, s0)
            name = "%s [invariant of %s]" % (f.short, owner.name)
            bad = exits.get("D")
            ctx.ob(name, bad is None, "every path that moves a cursor realigns afterwards (%s)" % "/".join(spec["realign"]),
                   detail=spec["why"] if bad is not None else "", loc=f.loc,
                   path=cfgmod.path_text(bad) if bad is not None else None)


@rule("C01", "R2", "K2", "callee precondition: a helper that asserts P is only called where P is established",
      min_instances=4, also=("C05", "C11"),
      clause="IntersectionMatcher._find_next asserts a.id() != b.id(); every call site either is dominated "
             "by a test of that condition with no cursor move in between, or follows exactly one next() of "
             "one aligned child.")
def c01_r2(ctx):
    prog = ctx.prog
    helper = prog.method("matching.binary.IntersectionMatcher", "_find_next", inherited=False)
    asserts = [s for s in helper.node.body if isinstance(s, ast.Assert)]
    first_assert = None
    for s in helper.node.body:
        if isinstance(s, ast.Assert):
            first_assert = s
            break
        if isinstance(s, (ast.While, ast.For, ast.If, ast.Return)):
            break
    if first_assert is None:
        ctx.ob(helper, True, "helper has no leading assert any more (nothing to establish)")
        return
    # resolve locals by the straight-line assignments preceding the assert
    env = {}
    for st in helper.node.body:
        if st is first_assert:
            break
        if isinstance(st, ast.Assign) and len(st.targets) == 1 and isinstance(st.targets[0], ast.Name):
            env[st.targets[0].id] = norm.substitute(st.value, env)
    want = norm.canon(norm.substitute(first_assert.test, env))
    if want != "(self.a.id() != self.b.id())":
        raise AnalysisError("IntersectionMatcher._find_next asserts %s; rule table needs re-confirmation" % want)
    n_sites = 0
    for f in prog.functions.values():
        if f.cls is None:
            continue
        for call in norm.calls_in(f.node):
            if norm.call_name(call) != "_find_next" or not isinstance(call.func, ast.Attribute):
                continue
            al = norm.aliases(f.node)
            recv = norm.canon(call.func.value, al)
            # which class is the receiver?
            if recv == "self":
                tgt = prog.lookup(f.cls, "_find_next")
            elif recv == "self.child" and prog.is_subclass(f.cls, prog.cls("matching.wrappers.RequireMatcher")):
                tgt = helper
            else:
                continue
            if tgt is not helper:
                continue
            n_sites += 1
            ctx.saw(f)

            def kill(node, fact, _al=al):
                # a cursor move on a or b invalidates id comparisons
                if ".id()" not in fact[1]:
                    return False
                for frag in cfgmod.node_exprs(node):
                    for c in norm.calls_in(frag):
                        if norm.call_name(c) in M.CURSOR_MOVES and isinstance(c.func, ast.Attribute):
                            r = norm.canon(c.func.value, _al)
                            if r in ("self.a", "self.b", "self.child"):
                                return True
                return False

            fa = guards.Facts(f, al=al, kill=kill)
            node = None
            for n in fa.g.nodes:
                for frag in cfgmod.node_exprs(n):
                    if any(c is call for c in norm.calls_in(frag)):
                        node = n
            ok = False
            how = ""
            if node is not None:
                facts = fa.at(node) or frozenset()
                if ("T", want) in facts or ("F", "(self.a.id() == self.b.id())") in facts:
                    ok = True
                    how = "dominated by the id test"
                else:
                    # idiom: exactly one next() on one aligned child since entry, then is_active test
                    dom = fa.g.dominators()[node.id]
                    moves = []
                    for n in fa.g.nodes:
                        for frag in cfgmod.node_exprs(n):
                            for c in norm.calls_in(frag):
                                if norm.call_name(c) in M.CURSOR_MOVES and isinstance(c.func, ast.Attribute) and \
                                        norm.canon(c.func.value, al) in ("self.a", "self.b"):
                                    moves.append((n, c))
                    dom_moves = [(n, c) for (n, c) in moves if n.id in dom and n.id != node.id]
                    other = [(n, c) for (n, c) in moves if n.id not in dom]
                    if len(dom_moves) == 1 and not other and norm.call_name(dom_moves[0][1]) == "next" \
                            and f.cls is not None and prog.is_subclass(f.cls, helper.cls):
                        ok = True
                        how = "exactly one child advanced by next() from the aligned state"
            ctx.ob(f, ok, "call of IntersectionMatcher._find_next establishes a.id() != b.id()",
                   detail=how or "no dominating test of %s and not the single-next idiom (AssertionError when ids are equal)" % want,
                   loc=ctx.nodeloc(f, call))
    if n_sites < 4:
        raise AnalysisError("only %d call sites of IntersectionMatcher._find_next found (5 confirmed by hand)" % n_sites)


# --------------------------------------------------------------------- R3
@rule("C01", "R3", "K1", "deleted documents are filtered at every posting source and document iterator",
      min_instances=6, also=("C07",),
      clause="SegmentReader.postings wraps the term matcher in an excluding FilterMatcher over the segment's "
             "deleted set whenever that set is non-empty; all_doc_ids tests is_deleted and the stored-field "
             "iterators go through it; Every draws ids from all_doc_ids()/postings; Not passes the reader's "
             "is_deleted as `missing`; doc_count = doc_count_all - deleted_count.")
def c01_r3(ctx):
    prog = ctx.prog
    f = prog.method("reading.SegmentReader", "postings", inherited=False)
    ctx.saw(f)
    defs = norm.definitions(f.node)
    al = norm.aliases(f.node)

    def dcanon(e):
        return norm.canon(norm.inline_defs(e, f.node), al)

    fm_calls = [c for c in norm.calls_in(f.node) if norm.call_name(c) in ("FilterMatcher", "ExcludeMatcher")]
    good_fm = []
    for c in fm_calls:
        ids = c.args[1] if len(c.args) > 1 else None
        excl = [k for k in c.keywords if k.arg == "exclude"]
        is_excl = norm.call_name(c) == "ExcludeMatcher" or (excl and isinstance(excl[0].value, ast.Constant)
                                                            and excl[0].value.value is True) or \
            (len(c.args) > 2 and isinstance(c.args[2], ast.Constant) and c.args[2].value is True)
        if ids is not None and dcanon(ids) == "self.deleted_docs_set" and is_excl:
            good_fm.append(c)
    ctx.ob(f, len(good_fm) >= 1, "builds FilterMatcher(matcher, <deleted set>, exclude=True)",
           detail="FilterMatcher calls: %s" % [norm.canon(c) for c in fm_calls])

    def classify(func, call, res, concrete):
        if call in good_fm:
            return "filter"
        return None

    def edge_event(func, node, label):
        if node.kind == "test" and dcanon(node.ast) == "self.deleted_docs_set":
            return "%s:deleted" % label[0]
        return None

    def stmt_event(func, node):
        if node.kind == "return":
            v = node.ast.value
            if isinstance(v, ast.Name):
                return "return:" + v.id
            if v in good_fm:
                return "return:<filter>"
            return "return:<expr>"
        return None

    tr = Tracer(prog, calls_of(prog), classify, follow=lambda *a: [], stmt_event=stmt_event,
                edge_event=edge_event, max_depth=0, track_raises=False)
    res = tr.traces(f, None)
    bad = None
    for t in res["normal"]:
        if not any(e.startswith("return:") for e in t):
            continue
        if "filter" in t or "F:deleted" in t:
            continue
        bad = t
    ctx.ob(f, bool(res["normal"]) and bad is None,
           "every returning path applies the deletion filter unless the deleted set is empty",
           detail=fmt(bad) if bad else "")
    # the filtered value is what is returned: the FilterMatcher result is assigned to the returned local
    assigned = set()
    for st in ast.walk(f.node):
        if isinstance(st, ast.Assign) and st.value in good_fm:
            for t_ in st.targets:
                if isinstance(t_, ast.Name):
                    assigned.add(t_.id)
    # on every path that built the filter, what is returned is the filter (directly or through the local it was bound to)
    wrong = [t for t in res["normal"] if "filter" in t and not any(
        e == "return:<filter>" or (e.startswith("return:") and e.split(":", 1)[1] in assigned) for e in t)]
    ctx.ob(f, not wrong and any("filter" in t for t in res["normal"]),
           "the value returned is the one the FilterMatcher was assigned to",
           detail="path %s" % fmt(wrong[0]) if wrong else "")
    # deleted_docs_set comes from the per-document reader's deleted docs
    dd = prog.method("reading.SegmentReader", "deleted_docs_set", inherited=False)
    rets = [norm.canon(r.value) for r in returns_of(dd) if r.value is not None]
    ctx.ob(dd, rets == ["frozenset(self._perdoc.deleted_docs())"], "deleted_docs_set = frozenset(per-doc reader's deleted docs)",
           detail=str(rets))
    # document iterators
    pdr = prog.cls("codec.base.PerDocumentReader")
    for c in prog.subclasses(pdr):
        g = c.methods.get("all_doc_ids")
        if g is None:
            continue
        ctx.saw(g)
        txt = norm.stmt_text(g.node)
        delegating = any(norm.call_name(x) == "all_doc_ids" for x in norm.calls_in(g.node))
        tests = "is_deleted" in txt
        ctx.ob(g, tests or delegating, "all_doc_ids() skips deleted documents (tests is_deleted or delegates to a reader that does)")
        for m in ("iter_docs", "all_stored_fields"):
            h = prog.lookup(c, m)
            if h is not None and h.cls is c or (h is not None and c is pdr):
                its = [norm.canon(n.iter) for n in ast.walk(h.node) if isinstance(n, (ast.For, ast.comprehension))]
                ctx.ob(h, any("all_doc_ids()" in i for i in its), "%s iterates all_doc_ids()" % m, detail=str(its))
    ir = prog.cls("reading.IndexReader")
    for c in prog.subclasses(ir):
        if c.short == "reading.EmptyReader":
            continue  # reader of an index without segments: has no documents at all
        for m in ("all_doc_ids", "iter_docs", "all_stored_fields"):
            g = c.methods.get(m)
            if g is None or is_abstract_body(g):
                continue
            ctx.saw(g)
            txt = norm.stmt_text(g.node)
            ok = ("is_deleted" in txt) or any(norm.call_name(x) in ("all_doc_ids", "iter_docs", "all_stored_fields")
                                              for x in norm.calls_in(g.node))
            ctx.ob(g, ok, "%s filters deleted documents or delegates to an iterator that does" % m)
    # Every / Not
    ev = prog.method("query.qcore.Every", "matcher", inherited=False)
    srcs = [norm.canon(c) for c in norm.calls_in(ev.node) if norm.call_name(c) in ("all_doc_ids", "postings", "xrange", "range", "doc_count_all")]
    ctx.ob(ev, any("all_doc_ids" in s for s in srcs) and not any(s.startswith(("xrange(", "range(")) or "doc_count_all" in s for s in srcs),
           "Every draws document ids from reader.all_doc_ids() / postings (both deletion-filtered), never from a raw range",
           detail=str(srcs))
    nt = prog.method("query.wrappers.Not", "matcher", inherited=False)
    inv = [c for c in norm.calls_in(nt.node) if norm.call_name(c) == "InverseMatcher"]
    ok = False
    if len(inv) == 1:
        init = prog.method("matching.wrappers.InverseMatcher", "__init__")
        m, probs = bind_args(inv[0], init)
        A = pm.Alpha(nt)
        ok = bool(m) and not probs and A.eq(m.get("missing"), "reader.is_deleted") and \
            A.eq(m.get("limit"), "reader.doc_count_all()")
    ctx.ob(nt, ok, "Not builds InverseMatcher(child, reader.doc_count_all(), missing=reader.is_deleted)")
    # counts
    sg = prog.method("codec.base.Segment", "doc_count", inherited=False)
    rets = [norm.canon(r.value) for r in returns_of(sg) if r.value is not None]
    ctx.ob(sg, rets == ["(self.doc_count_all() - self.deleted_count())"], "Segment.doc_count = doc_count_all - deleted_count",
           detail=str(rets))


# --------------------------------------------------------------------- R4
SINKS = ("append", "add", "extend", "update", "_collect", "heappush", "heapreplace", "insort", "final_fn", "final")  # final(top_searcher, docnum, score) takes the GLOBAL number


@rule("C01", "R4", "K11", "segment-local document numbers are globalised with the offset of their own segment",
      min_instances=8,
      clause="docs_for_query and MultiMatcher add the offset bound in the same iteration; every Collector.collect "
             "records only self.offset + sub_docnum (never the raw sub-searcher number); set_subsearcher stores "
             "the offset it is given.")
def c01_r4(ctx):
    prog = ctx.prog
    # docs_for_query
    f = prog.method("searching.Searcher", "docs_for_query", inherited=False)
    ctx.saw(f)
    ok = False
    detail = []
    for lp in ast.walk(f.node):
        srcs = [norm.deep_canon(lp.iter, f.node)] if isinstance(lp, ast.For) else []
        if isinstance(lp, ast.For) and isinstance(lp.iter, ast.Name):
            # a local bound on several branches (sub-searchers, or [(self, 0)] for an atomic searcher)
            srcs += [norm.canon(v) for v in norm.assigned_names(f.node).get(lp.iter.id, []) if v is not None]
        if isinstance(lp, ast.For) and any("self.subsearchers" in x for x in srcs) and isinstance(lp.target, ast.Tuple) \
                and len(lp.target.elts) == 2:
            sub, off = [norm.canon(e) for e in lp.target.elts]
            for inner in ast.walk(lp):
                if isinstance(inner, ast.For) and inner is not lp:
                    v = norm.canon(inner.target)
                    uses_sub = sub in norm.names_in(inner.iter)
                    ys = [norm.canon(y.value) for y in ast.walk(inner) if isinstance(y, ast.Yield)]
                    detail.append((norm.canon(inner.iter), ys))
                    want = norm.canon(norm.parse_expr("%s + %s" % (v, off)))
                    ok = uses_sub and ys == [want]
    ctx.ob(f, ok, "yields sub-searcher docnum + that sub-searcher's offset", detail=str(detail))
    # MultiMatcher
    mm = "matching.wrappers.MultiMatcher"
    idf = prog.method(mm, "id", inherited=False)
    rets = [norm.deep_canon(r.value, idf.node) for r in returns_of(idf)]
    ctx.ob(idf, rets == ["(self.matchers[self.current].id() + self.offsets[self.current])"],
           "id() = current sub-matcher id + offset of the same index", detail=str(rets))
    ai = prog.method(mm, "all_ids", inherited=False)
    ok = False
    seen_ = []
    for lp in ast.walk(ai.node):
        if not isinstance(lp, ast.For):
            continue
        inner = [n for n in ast.walk(lp) if isinstance(n, ast.For) and n is not lp]
        if not inner:
            continue
        # whichever way the two parallel lists are walked (enumerate + index, zip, range(len())): the ids of the sub-matcher at one
        # position get the offset at the same position
        v = norm.canon(inner[0].target)
        ys = [norm.positional(lp, y.value, ai.node) for y in ast.walk(lp) if isinstance(y, ast.Yield)]
        src = norm.positional(lp, inner[0].iter, ai.node)
        seen_.append((src, ys))
        ok = ys == [norm.canon(norm.parse_expr("%s + self.offsets['@']" % v)).replace("'@'", "@")] and src == "self.matchers[@].all_ids()"
    ctx.ob(ai, ok, "all_ids() adds offsets[i] of the enumerated sub-matcher i")
    sk = prog.method(mm, "skip_to", inherited=False)
    al = norm.aliases(sk.node)
    skc = [c for c in norm.calls_in(sk.node) if norm.call_name(c) == "skip_to"]
    ok = False
    if len(skc) == 1 and skc[0].args:
        recv = norm.deep_canon(norm.receiver(skc[0]), sk.node)
        arg = norm.deep_canon(skc[0].args[0], sk.node)
        ok = recv == "self.matchers[self.current]" and arg == "(id - self.offsets[self.current])"
    ctx.ob(sk, ok, "skip_to() subtracts the current sub-matcher's own offset from the target",
           detail="%s.skip_to(%s)" % (recv, arg) if skc and skc[0].args else "")
    # collectors
    cbase = prog.cls("collectors.Collector")
    n = 0
    for c in prog.subclasses(cbase):
        for m in ("collect", "collect_matches"):
            g = c.methods.get(m)
            if g is None or is_abstract_body(g):
                continue
            ctx.saw(g)
            params = g.params[1:]
            p = params[0] if params else None
            # locals holding sub-searcher document numbers: the parameter, and loop
            # variables over self.matches() / child.matches()
            raw = set([p] if p and m == "collect" else [])

            def from_matches(e, seqs):
                return any(norm.call_name(x) == "matches" for x in norm.calls_in(e)) or \
                    any(isinstance(x, ast.Name) and x.id in seqs for x in ast.walk(e))
            # collections of raw numbers: locals bound from an expression over matches() (list(self.matches()), sorted(...)), transitively
            rawseq = set()
            changed = True
            while changed:
                changed = False
                for st in ast.walk(g.node):
                    if isinstance(st, ast.Assign) and len(st.targets) == 1 and isinstance(st.targets[0], ast.Name) \
                            and st.targets[0].id not in rawseq and from_matches(st.value, rawseq):
                        rawseq.add(st.targets[0].id)
                        changed = True
            for lp in ast.walk(g.node):
                if isinstance(lp, (ast.For, ast.comprehension)) and isinstance(lp.target, ast.Name) and from_matches(lp.iter, rawseq):
                    raw.add(lp.target.id)
            raw |= rawseq
            if not raw:
                continue
            n += 1
            bad = []
            for call in norm.calls_in(g.node):
                nm = norm.call_name(call)
                if nm not in SINKS:
                    continue
                for a in call.args:
                    for nd in ast.walk(a):
                        if isinstance(nd, ast.Name) and nd.id in raw:
                            # allowed only inside  offset + raw
                            bad.append(norm.canon(call))
            # global_docnum definitions
            gdefs = []
            gdef_nodes = []
            for st in ast.walk(g.node):
                if isinstance(st, ast.Assign) and any(isinstance(t_, ast.Name) and "global" in t_.id for t_ in st.targets):
                    gdefs.append(norm.canon(st.value))
                    gdef_nodes.append(st.value)
            gal = norm.aliases(g.node)

            def is_glob(v):
                # <something>.offset + <raw docnum>  (aliases of self / self.child resolved)
                if not (isinstance(v, ast.BinOp) and isinstance(v.op, ast.Add)):
                    return False
                for a_, b_ in ((v.left, v.right), (v.right, v.left)):
                    if isinstance(a_, ast.Name) and a_.id in raw:
                        t = norm.canon(b_, gal)
                        if t in ("self.offset", "self.child.offset"):
                            return True
                return False
            okdefs = all(is_glob(v) for v in gdef_nodes)
            # sinks that receive offset+raw inline are fine: re-check bad entries
            realbad = []
            for call in norm.calls_in(g.node):
                if norm.call_name(call) not in SINKS:
                    continue
                for a in call.args:
                    stripped = _strip_offset_sums(a, raw, gal)
                    if any(isinstance(nd, ast.Name) and nd.id in raw for nd in ast.walk(stripped)):
                        realbad.append(norm.canon(call))
            ctx.ob(g, not realbad and okdefs, "records only offset + sub_docnum, never the raw sub-searcher document number",
                   detail="raw use in %s; global defs %s" % (realbad, gdefs) if (realbad or not okdefs) else "")
    if n < 5:
        raise AnalysisError("only %d collector collect methods analysed" % n)
    ss = prog.method("collectors.Collector", "set_subsearcher", inherited=False)
    ok = any(isinstance(st, ast.Assign) and norm.canon(st.targets[0]) == "self.offset" and norm.canon(st.value) == "offset"
             for st in ast.walk(ss.node))
    ctx.ob(ss, ok, "set_subsearcher stores the offset it is given in self.offset")
    # search_with_collector passes each sub-searcher with its own offset
    sw = prog.method("searching.Searcher", "search_with_collector", inherited=False)
    run = prog.method("collectors.Collector", "run", inherited=False)
    ok = False
    for lp in ast.walk(run.node):
        if isinstance(lp, ast.For) and isinstance(lp.target, ast.Tuple) and len(lp.target.elts) == 2:
            sub, off = [norm.canon(e) for e in lp.target.elts]
            for c in norm.calls_in(lp):
                if norm.call_name(c) == "set_subsearcher" and [norm.canon(a) for a in c.args] == [sub, off]:
                    ok = True
    ctx.ob(run, ok, "run() hands each leaf searcher to set_subsearcher together with its own offset")


def _strip_offset_sums(expr, raw, al_=None):
    """Replace every `<offset> + <raw>` by a constant so remaining raw names are unglobalised uses."""
    class T(ast.NodeTransformer):
        def visit_BinOp(self, node):
            self.generic_visit(node)
            if isinstance(node.op, ast.Add):
                l, r = node.left, node.right
                for a, b in ((l, r), (r, l)):
                    if isinstance(a, ast.Name) and a.id in raw and norm.canon(b, al_).endswith("offset"):
                        return ast.Constant(value=0)
            return node
    import copy
    return T().visit(copy.deepcopy(expr))


# --------------------------------------------------------------------- R5
@rule("C01", "R5", "K1", "ArrayUnionMatcher buffers a new part only at a matching position (or scans afterwards)",
      min_instances=4, also=("C11",),
      clause="In ArrayUnionMatcher every _read_part() is preceded by `_docnum = self._min_id()` (the smallest "
             "live sub-matcher id, a matching document by construction) or followed by a _find_next() scan on "
             "every path; otherwise the matcher reports a position where no clause matches.")
def c01_r5(ctx):
    prog = ctx.prog
    cls = prog.cls("matching.combo.ArrayUnionMatcher")

    def classify(func, call, res, concrete):
        if isinstance(call.func, ast.Attribute) and norm.canon(call.func.value) == "self":
            n = call.func.attr
            if n == "_read_part":
                return "read_part"
            if n == "_find_next" and func.name != "_find_next":
                return "scan"
        return None

    def stmt_event(func, node):
        a = node.ast
        if node.kind == "stmt" and isinstance(a, (ast.Assign, ast.AugAssign)):
            tg = a.targets if isinstance(a, ast.Assign) else [a.target]
            for t in tg:
                if norm.canon(t) == "self._docnum":
                    if isinstance(a, ast.Assign) and norm.canon(a.value) in ("self._min_id()", "self._doccount"):
                        return "pos:min"
                    return "pos:other"
        return None

    def edge_event(func, node, label):
        if node.kind == "test" and ".is_active()" in norm.canon(node.ast) and label[0] == "F":
            return "inactive"
        return None

    def delta(state, ev):
        # M: position is a matching id / nothing pending; O: position set to an unverified value;
        # R: a part was buffered at an unverified position
        if state == "X":
            return "X"
        if ev == "pos:min":
            return "M"
        if ev == "pos:other":
            return "O"
        if ev == "read_part":
            return "R" if state in ("O", "R") else "M"
        if ev == "scan":
            return "M"
        if ev == "inactive":
            return "X"
        return state

    ts = TypeState(prog, calls_of(prog), delta, classify, stmt_event=stmt_event, edge_event=edge_event)
    ts.all_states = ("M", "O", "R", "X")
    for m in ("__init__", "_find_next", "next", "skip_to", "skip_to_quality", "reset"):
        f = prog.lookup(cls, m)
        if f is None or f.cls is not cls:
            continue
        ctx.saw(f)
        exits = ts.run(f, cls, "M")
        bad = exits.get("R")
        ctx.ob(f, bad is None, "no path leaves a part buffered at an unverified position",
               path=cfgmod.path_text(bad) if bad else None)


# --------------------------------------------------------------------- R6
@rule("C01", "R6", "K2", "InverseMatcher never rests on a document its `missing` predicate rejects",
      min_instances=1, also=("C07",),
      clause="On every normal path through InverseMatcher._find_next, the last thing that happened to self._id is a "
             "test that accepted it -- missing(self._id) evaluated false, or self._id < self.limit evaluated false "
             "(exhausted) -- not an increment; Not passes reader.is_deleted as `missing` (C01-R3), so a violation "
             "returns deleted documents.")
def c01_r6(ctx):
    prog = ctx.prog
    f = prog.method("matching.wrappers.InverseMatcher", "_find_next", inherited=False)
    cls = prog.cls("matching.wrappers.InverseMatcher")
    ctx.saw(f)
    al = norm.aliases(f.node)
    # the cursor may be worked on through locals (docnum = self._id ... self._id = docnum): the family of names whose value is
    # copied from / into self._id, found by closing over plain copies
    family = set(["self._id"])
    changed = True
    while changed:
        changed = False
        for st in ast.walk(f.node):
            if isinstance(st, ast.Assign) and len(st.targets) == 1 and isinstance(st.value, (ast.Name, ast.Attribute)) \
                    and isinstance(st.targets[0], (ast.Name, ast.Attribute)):
                t, v = norm.canon(st.targets[0]), norm.canon(st.value)
                if v in family and isinstance(st.targets[0], ast.Name) and t not in family:
                    family.add(t)          # docnum = self._id ;  d2 = docnum
                    changed = True
                if t in family and isinstance(st.value, ast.Name) and v not in family:
                    family.add(v)          # self._id = docnum ;  docnum = d2
                    changed = True
    family = set(x for x in family if x == "self._id" or "." not in x)

    def cur(text):
        # canonical text with every member of the family spelled CUR
        out = text
        for m_ in sorted(family, key=len, reverse=True):
            out = re.sub(r"(?<![\w.])%s(?![\w])" % re.escape(m_), "CUR", out)
        return out

    def stmt_event(func, node):
        a = node.ast
        if node.kind == "stmt" and isinstance(a, ast.AugAssign) and norm.canon(a.target) in family:
            return "moved"
        if node.kind == "stmt" and isinstance(a, ast.Assign):
            if any(norm.canon(t) in family for t in a.targets) and not (isinstance(a.value, (ast.Name, ast.Attribute)) and norm.canon(a.value) in family):
                return "moved"
        return None

    def edge_event(func, node, label):
        if node.kind != "test":
            return None
        t = cur(norm.canon(node.ast, al))
        pol = label[0]
        if t == "self.missing(CUR)":
            return "accepted" if pol == "F" else "rejected"
        if t == "(CUR < self.limit)" and pol == "F":
            return "accepted"
        if t == "(self.limit <= CUR)" and pol == "T":
            return "accepted"
        return None

    def delta(state, ev):
        if ev == "moved" or ev == "rejected":
            return "D"
        if ev == "accepted":
            return "C"
        return state
    ts = TypeState(prog, calls_of(prog), delta, lambda *a: None, stmt_event=stmt_event, edge_event=edge_event, max_depth=0)
    ts.all_states = ("C", "D")
    exits = ts.run(f, cls, "D")
    bad = exits.get("D")
    ctx.ob(f, "C" in exits and bad is None, "every path leaves self._id on an accepted document (or past the limit)",
           detail="a path ends right after self._id was advanced, without asking missing(): Not(q) can return a deleted document" if bad else "",
           path=cfgmod.path_text(bad) if bad else None)
    # every mover of _id re-establishes the invariant through _find_next
    for mname in ("__init__", "next", "skip_to", "reset"):
        g = cls.methods.get(mname)
        if g is None:
            continue
        last_set = None
        gpos = norm.source_pos(g.node)
        calls_find = [gpos(c) for c in norm.calls_in(g.node) if norm.canon(c) == "self._find_next()"]
        sets = [gpos(st) for st in ast.walk(g.node) if isinstance(st, (ast.Assign, ast.AugAssign)) and
                any(norm.canon(t) == "self._id" for t in (st.targets if isinstance(st, ast.Assign) else [st.target]))]
        ctx.ob(g, bool(calls_find) and (not sets or max(sets) < max(calls_find)), "%s() calls _find_next() after its last change of self._id" % mname)


# --------------------------------------------------------------------- R7
@rule("C01", "R7", "K2", "a term range drops lexicon terms only for the documented reasons",
      min_instances=1,
      clause="TermRange._btexts yields every term terms_from(fieldname, start) produces except: it stops at another field, "
             "at a term beyond `end`, or at `end` itself when endexcl; it skips a term only if it EQUALS `start` and "
             "startexcl (the first term produced need not be `start`); the iterator is consumed by the loop only.")
def c01_r7(ctx):
    prog = ctx.prog
    f = prog.method("query.ranges.TermRange", "_btexts", inherited=False)
    ctx.saw(f)
    A = pm.Alpha(f)
    loops = [lp for lp in ast.walk(f.node) if isinstance(lp, ast.For) and "terms_from(" in norm.deep_canon(lp.iter, f.node)]
    ctx.ob(f, len(loops) == 1 and norm.deep_canon(loops[0].iter, f.node).endswith("terms_from(self.fieldname, start)")
           or (len(loops) == 1 and A.eq(norm.inline_defs(loops[0].iter, f.node), "ixreader.terms_from(self.fieldname, start)")),
           "one loop over ixreader.terms_from(fieldname, start)")
    if len(loops) != 1:
        return
    lp = loops[0]
    # nothing else consumes the iterator
    eaters = [norm.canon(c) for c in norm.calls_in(f.node) if norm.call_name(c) in ("next", "islice", "dropwhile", "takewhile", "__next__")]
    ctx.ob(f, not eaters, "the term iterator is consumed by the loop only", detail=str(eaters))
    if not (isinstance(lp.target, ast.Tuple) and len(lp.target.elts) == 2 and all(isinstance(e, ast.Name) for e in lp.target.elts)):
        ctx.ob(f, False, "loop unpacks (fieldname, term)")
        return
    fn, t = lp.target.elts[0].id, lp.target.elts[1].id
    fa = guards.Facts(f)
    al = fa.al
    # the locals holding the encoded bounds: `start` is what terms_from() is given, `end` the one derived from self.end
    tf = [c for c in norm.calls_in(norm.inline_defs(lp.iter, f.node)) if norm.call_name(c) == "terms_from"]
    start = norm.canon(tf[0].args[1]) if tf and len(tf[0].args) > 1 else "start"
    ends = [nm_ for nm_, vals in norm.assigned_names(f.node).items() if any(v is not None and re.search(r"self\.end\b", norm.canon(v)) for v in vals)]
    end = ends[0] if len(ends) == 1 else "end"

    def has(facts, pol, *texts):
        return any((pol, x) in facts for x in texts)
    for n in fa.g.nodes:
        a = n.ast
        if n.kind != "stmt" or not isinstance(a, (ast.Continue, ast.Break)) or not any(x is a for x in ast.walk(lp)):
            continue
        entries = fa.per_entry(n) or [fa.at(n) or frozenset()]
        oks = []
        for facts in entries:
            eq_start = has(facts, "T", "(%s == %s)" % (start, t), "(%s == %s)" % (t, start))
            eq_end = has(facts, "T", "(%s == %s)" % (end, t), "(%s == %s)" % (t, end))
            if isinstance(a, ast.Continue):
                oks.append(eq_start and has(facts, "T", "self.startexcl", "startexcl"))
            else:
                other_field = has(facts, "F", "(%s == self.fieldname)" % fn, "(self.fieldname == %s)" % fn, "(%s == fieldname)" % fn, "(fieldname == %s)" % fn)
                beyond = has(facts, "T", "(%s < %s)" % (end, t))
                at_end = eq_end and has(facts, "T", "self.endexcl", "endexcl")
                oks.append(other_field or beyond or at_end)
        if isinstance(a, ast.Continue):
            ctx.ob(f, all(oks), "a term is skipped only if it equals start and the start is exclusive",
                   detail="facts per way in: %s" % [sorted(x) for x in entries], loc=ctx.nodeloc(f, a))
        else:
            ctx.ob(f, all(oks), "the expansion stops only at another field, beyond end, or at an exclusive end",
                   detail="facts per way in: %s" % [sorted(x) for x in entries], loc=ctx.nodeloc(f, a))
    ys = [y for y in ast.walk(lp) if isinstance(y, ast.Yield)]
    ctx.ob(f, len(ys) == 1 and norm.canon(ys[0].value) == t, "yields the term itself")


# --------------------------------------------------------------------- R8
@rule("C01", "R8", "K2", "NestedChildMatcher publishes a child document number only after asking is_deleted about it",
      min_instances=2, also=("C07",),
      clause="In NestedChildren.NestedChildMatcher.next and ._find_next_children the value stored into self._nextchild was, "
             "since its last increment, rejected by `is_deleted(x)` evaluating false or found to be at/past the next parent "
             "(the matcher is then inactive or moves to the next group); NestedChildren passes the reader's is_deleted.")
def c01_r8(ctx):
    prog = ctx.prog
    cls = prog.cls("query.nested.NestedChildren.NestedChildMatcher")
    for mname in ("next", "_find_next_children"):
        f = cls.methods.get(mname)
        if f is None:
            raise AnalysisError("NestedChildMatcher.%s vanished" % mname)
        ctx.saw(f)
        al = norm.aliases(f.node)
        # the local that is published: self._nextchild = <local>
        pubs = [st for st in ast.walk(f.node) if isinstance(st, ast.Assign) and any(norm.canon(t) == "self._nextchild" for t in st.targets)]
        cur = set()
        for st in pubs:
            for t in st.targets:
                if isinstance(t, ast.Name):
                    cur.add(t.id)
            if isinstance(st.value, ast.Name):
                cur.add(st.value.id)
        cur.add("self._nextchild")

        def stmt_event(func, node, _cur=cur):
            a = node.ast
            if node.kind != "stmt":
                return None
            evs = []
            if isinstance(a, ast.AugAssign) and norm.canon(a.target) in _cur:
                evs.append("moved")
            if isinstance(a, ast.Assign):
                tnames = [norm.canon(t) for t in a.targets]
                v = a.value
                fresh = isinstance(v, ast.BinOp) or (isinstance(v, ast.Call))
                if any(t in _cur for t in tnames) and fresh:
                    evs.append("moved")
                if "self._nextchild" in tnames:
                    evs.append("publish")
            return evs or None

        def edge_event(func, node, label, _cur=cur):
            if node.kind != "test":
                return None
            t = norm.canon(node.ast, al)
            pol = label[0]
            for c in _cur:
                if t == "self.is_deleted(%s)" % c:
                    return "accepted" if pol == "F" else "rejected"
                if t in ("(%s < nextparent)" % c, "(%s < self._nextparent)" % c) and pol == "F":
                    return "accepted"
            return None

        def delta(state, ev):
            if state == "BAD":
                return state
            if ev in ("moved", "rejected"):
                return "D"
            if ev == "accepted":
                return "C"
            if ev == "publish" and state == "D":
                return "BAD"
            return state
        ts = TypeState(prog, calls_of(prog), delta, lambda *a: None, stmt_event=stmt_event, edge_event=edge_event, max_depth=0)
        ts.all_states = ("C", "D")
        exits = ts.run(f, cls, "C")
        bad = exits.get("BAD")
        ctx.ob(f, bool(pubs) and bad is None, "self._nextchild is only set to a number that is_deleted() let through (or that lies past the group)",
               detail="a freshly incremented child number is published without asking is_deleted(): deleted child documents are returned" if bad else "",
               path=cfgmod.path_text(bad) if bad else None)
    nm = prog.method("query.nested.NestedChildren", "matcher", inherited=False)
    calls = [c for c in norm.calls_in(nm.node) if norm.call_name(c) == "NestedChildMatcher"]
    ok = False
    if len(calls) == 1:
        m, probs = bind_args(calls[0], cls.methods["__init__"])
        ok = bool(m) and not probs and norm.deep_canon(m.get("is_deleted"), nm.node).endswith(".is_deleted")
    ctx.ob(nm, ok, "NestedChildren.matcher passes the reader's is_deleted to the child matcher")


@rule("C01", "R9", "K6", "a fielded query that turns itself into Every keeps its field",
      min_instances=4, also=("C15",),
      clause="Prefix(''), Wildcard('*'), Regex('.*') and an open-ended TermRange take the shortcut `Every(self.fieldname, ...)`: every "
             "Every(...) built inside a method of a query class that has a fieldname binds Every's fieldname parameter to self.fieldname. "
             "Every() without a field matches every live document, a fielded Every only the documents that have a term in the field.")
def c01_r9(ctx):
    from .common import bound_arg
    prog = ctx.prog
    Q = prog.cls("query.qcore.Query")
    n = 0
    for K in prog.subclasses(Q, strict=True):
        init = prog.lookup(K, "__init__")
        if init is None or "fieldname" not in init.params:
            continue
        for name, f in sorted(K.methods.items()):
            for c in norm.calls_in(f.node):
                if norm.call_name(c) != "Every":
                    continue
                n += 1
                ctx.saw(f)
                a = c.args[0] if c.args else None
                for k in c.keywords:
                    if k.arg == "fieldname":
                        a = k.value
                t = norm.deep_canon(a, f.node) if a is not None else None
                ctx.ob(f, t == "self.fieldname", "Every(...) built by %s.%s keeps the query's field" % (K.name, name),
                       detail="fieldname bound to %s: the rewritten query matches documents that have nothing in the field" % t if t != "self.fieldname" else "",
                       loc=ctx.nodeloc(f, c))
    if n < 4:
        raise AnalysisError("only %d Every(...) shortcuts found in fielded query classes" % n)
