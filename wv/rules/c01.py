"""C01 -- search returns exactly the documents that satisfy the query.

R1/R2 are shared with C05 (alignment after quality skips) and C11 (cursor
faithfulness under arbitrary call sequences): they are per-method obligations
and therefore independent of the calling sequence.
"""

import ast

from ..report import rule
from .. import norm, cfg as cfgmod, guards, matchers as M
from ..traces import Tracer, fmt, last_index
from ..typestate import TypeState
from ..model import AnalysisError
from .common import calls_of, find_calls, returns_of, is_abstract_body, bind_args

INLINE_NAMES = ("__init__", "_find_first", "_first_b")


def _id_cmp_kind(e, al):
    """'ne' / 'eq' if e compares the ids of two children, else None."""
    if isinstance(e, ast.Compare) and len(e.ops) == 1 and isinstance(e.ops[0], (ast.Eq, ast.NotEq)):
        l = norm.canon(e.left, al)
        r = norm.canon(e.comparators[0], al)
        if l.endswith(".id()") and r.endswith(".id()"):
            return "ne" if isinstance(e.ops[0], ast.NotEq) else "eq"
    return None


def align_tracer(prog, cls, spec):
    helpers = [h for h in spec["realign"] if not h.startswith("cache:") and h != "follow"]
    cache_attrs = [h.split(":", 1)[1] for h in spec["realign"] if h.startswith("cache:")]
    follow_mode = "follow" in spec["realign"]
    is_cache_kind = bool(cache_attrs)
    ctor_realign = spec.get("ctor_realign", [])

    def classify(func, call, res, concrete):
        name = norm.call_name(call)
        if name in ctor_realign and isinstance(call.func, ast.Name):
            return "realign"
        if name is None or not isinstance(call.func, ast.Attribute):
            return None
        al = norm.aliases(func.node)
        recv = norm.canon(call.func.value, al)
        # realign helper call: self._find_next() / self.child._find_next()
        for h in helpers:
            if "." in h:
                attr, hn = h.split(".")
                if name == hn and recv == "self." + attr:
                    return "realign"
            elif name == h and recv == "self" and h not in INLINE_NAMES:
                return "realign"
        if is_cache_kind and name == "id" and recv == "self":
            return "recache"
        if name in M.CURSOR_MOVES:
            lv = M.loop_vars_over_children(func.node, spec, al)
            ch = M.child_of_receiver(recv, spec, lv)
            if ch is not None:
                if follow_mode and ch == "b" and name == "skip_to" and call.args and \
                        "self.a.id()" in norm.canon(call.args[0], al):
                    return "realign"
                return "adv:%s.%s" % (ch, name)
        return None

    def follow(func, call, res, concrete):
        name = norm.call_name(call)
        if name in INLINE_NAMES and res.kind in ("exact", "cha") and res.targets:
            out = []
            for t in res.targets:
                if t.cls is None:
                    continue
                if name == "__init__" and func.name != "__init__":
                    continue
                out.append((t, concrete))
            return out[:1] if res.kind == "exact" else []
        return []

    def stmt_event(func, node):
        a = node.ast
        if node.kind != "stmt":
            return None
        targets = []
        if isinstance(a, ast.Assign):
            targets = [(t, a.value) for t in a.targets]
        elif isinstance(a, ast.AugAssign):
            targets = [(a.target, None)]
        evs = []
        for t, v in targets:
            if isinstance(t, ast.Attribute) and isinstance(t.value, ast.Name) and t.value.id == "self":
                if t.attr in cache_attrs and isinstance(v, ast.Constant) and v.value is None:
                    evs.append("realign")
                elif t.attr in spec["own"] and func.name not in spec["realign"]:
                    evs.append("adv:own.%s" % t.attr)
        return evs or None

    def edge_event(func, node, label):
        if node.kind != "test" or not isinstance(label, tuple):
            return None
        al = norm.aliases(func.node)
        e = node.ast
        k = _id_cmp_kind(e, al)
        if k is not None:
            return "%s:ids_%s" % (label[0], k)
        t = norm.canon(e, al)
        if ".is_active()" in t:
            return "%s:act" % label[0]
        return None

    is_cache = bool(cache_attrs)

    def delta(state, ev):
        if not isinstance(ev, str):
            return state
        if is_cache:
            # N: nothing happened, I: cache invalidated, D: advanced without invalidation
            if ev.startswith("adv:"):
                return "I" if state == "I" else "D"
            if ev == "realign":
                return "I"
            if ev == "recache":
                return "N" if state == "I" else state
            return state
        # C: aligned, D: a cursor moved since the last realignment, X: a cursor is known exhausted
        if state == "X":
            return "X"
        if ev.startswith("adv:"):
            return "D"
        if ev == "realign":
            return "C"
        if _excused(ev, spec):
            return "X" if ev == "F:act" else "C"
        return state

    ts = TypeState(prog, calls_of(prog), delta, classify, follow, stmt_event=stmt_event,
                   edge_event=edge_event, max_depth=3)
    ts.all_states = ("N", "I", "D") if is_cache else ("C", "D", "X")
    ts.is_cache = is_cache
    return ts


def _excused(ev, spec):
    if ev == "F:act":
        return True
    if "ids_equal" in spec["excuse"] and ev in ("F:ids_ne", "T:ids_eq"):
        return True
    if "sub_active" in spec["excuse"] and ev == "T:act":
        return True
    return False


@rule("C01", "R1", "K1", "advance => realign: every cursor move of a composite matcher re-establishes its invariant",
      min_instances=25, also=("C05", "C11"),
      clause="For every composite matcher class and every mutator it defines or inherits (__init__, reset, "
             "next, skip_to, skip_to_quality), each path that advances a child cursor (or the own cursor) "
             "reaches the class's realignment step afterwards, unless it passed a test showing a cursor "
             "inactive (or, for intersections, the ids already equal).",
      assumes=["alignment specs (children / helper / accepted excuses) are a frozen table per base class"])
def c01_r1(ctx):
    prog = ctx.prog
    M.validate_specs(prog)
    for cls in M.matcher_classes(prog):
        owner, spec = M.spec_for(prog, cls)
        if spec is None:
            continue
        tr = align_tracer(prog, cls, spec)
        for m in M.MUTATORS:
            f = prog.lookup(cls, m)
            if f is None or is_abstract_body(f):
                continue
            if m == "skip_to_quality" and M.constant_false_sbq(prog, cls):
                continue  # never called: the collector checks supports_block_quality()
            # only report a (class, method) pair once per defining function and spec owner
            ctx.saw(f)
            # __init__: children arrive in an arbitrary state => start dirty
            if tr.is_cache:
                s0 = "N"
            else:
                s0 = "D" if m == "__init__" else "C"
            exits = tr.run(f, cls, s0)
            name = "%s [invariant of %s]" % (f.short, owner.name)
            bad = exits.get("D")
            ctx.ob(name, bad is None, "every path that moves a cursor realigns afterwards (%s)" % "/".join(spec["realign"]),
                   detail=spec["why"] if bad is not None else "", loc=f.loc,
                   path=cfgmod.path_text(bad) if bad is not None else None)


@rule("C01", "R2", "K2", "callee precondition: a helper that asserts P is only called where P is established",
      min_instances=4, also=("C05", "C11"),
      clause="IntersectionMatcher._find_next asserts a.id() != b.id(); every call site either is dominated "
             "by a test of that condition with no cursor move in between, or follows exactly one next() of "
             "one aligned child.")
def c01_r2(ctx):
    prog = ctx.prog
    helper = prog.method("matching.binary.IntersectionMatcher", "_find_next", inherited=False)
    asserts = [s for s in helper.node.body if isinstance(s, ast.Assert)]
    first_assert = None
    for s in helper.node.body:
        if isinstance(s, ast.Assert):
            first_assert = s
            break
        if isinstance(s, (ast.While, ast.For, ast.If, ast.Return)):
            break
    if first_assert is None:
        ctx.ob(helper, True, "helper has no leading assert any more (nothing to establish)")
        return
    # resolve locals by the straight-line assignments preceding the assert
    env = {}
    for st in helper.node.body:
        if st is first_assert:
            break
        if isinstance(st, ast.Assign) and len(st.targets) == 1 and isinstance(st.targets[0], ast.Name):
            env[st.targets[0].id] = norm.substitute(st.value, env)
    want = norm.canon(norm.substitute(first_assert.test, env))
    if want != "(self.a.id() != self.b.id())":
        raise AnalysisError("IntersectionMatcher._find_next asserts %s; rule table needs re-confirmation" % want)
    n_sites = 0
    for f in prog.functions.values():
        if f.cls is None:
            continue
        for call in norm.calls_in(f.node):
            if norm.call_name(call) != "_find_next" or not isinstance(call.func, ast.Attribute):
                continue
            al = norm.aliases(f.node)
            recv = norm.canon(call.func.value, al)
            # which class is the receiver?
            if recv == "self":
                tgt = prog.lookup(f.cls, "_find_next")
            elif recv == "self.child" and prog.is_subclass(f.cls, prog.cls("matching.wrappers.RequireMatcher")):
                tgt = helper
            else:
                continue
            if tgt is not helper:
                continue
            n_sites += 1
            ctx.saw(f)

            def kill(node, fact, _al=al):
                # a cursor move on a or b invalidates id comparisons
                if ".id()" not in fact[1]:
                    return False
                for frag in cfgmod.node_exprs(node):
                    for c in norm.calls_in(frag):
                        if norm.call_name(c) in M.CURSOR_MOVES and isinstance(c.func, ast.Attribute):
                            r = norm.canon(c.func.value, _al)
                            if r in ("self.a", "self.b", "self.child"):
                                return True
                return False

            fa = guards.Facts(f, al=al, kill=kill)
            node = None
            for n in fa.g.nodes:
                for frag in cfgmod.node_exprs(n):
                    if any(c is call for c in norm.calls_in(frag)):
                        node = n
            ok = False
            how = ""
            if node is not None:
                facts = fa.at(node) or frozenset()
                if ("T", want) in facts or ("F", "(self.a.id() == self.b.id())") in facts:
                    ok = True
                    how = "dominated by the id test"
                else:
                    # idiom: exactly one next() on one aligned child since entry, then is_active test
                    dom = fa.g.dominators()[node.id]
                    moves = []
                    for n in fa.g.nodes:
                        for frag in cfgmod.node_exprs(n):
                            for c in norm.calls_in(frag):
                                if norm.call_name(c) in M.CURSOR_MOVES and isinstance(c.func, ast.Attribute) and \
                                        norm.canon(c.func.value, al) in ("self.a", "self.b"):
                                    moves.append((n, c))
                    dom_moves = [(n, c) for (n, c) in moves if n.id in dom and n.id != node.id]
                    other = [(n, c) for (n, c) in moves if n.id not in dom]
                    if len(dom_moves) == 1 and not other and norm.call_name(dom_moves[0][1]) == "next" \
                            and f.cls is not None and prog.is_subclass(f.cls, helper.cls):
                        ok = True
                        how = "exactly one child advanced by next() from the aligned state"
            ctx.ob(f, ok, "call of IntersectionMatcher._find_next establishes a.id() != b.id()",
                   detail=how or "no dominating test of %s and not the single-next idiom (AssertionError when ids are equal)" % want,
                   loc=ctx.nodeloc(f, call))
    if n_sites < 4:
        raise AnalysisError("only %d call sites of IntersectionMatcher._find_next found (5 confirmed by hand)" % n_sites)
