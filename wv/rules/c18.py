"""C18 -- storage back-ends and writer front-ends are interchangeable.

C18 also runs C06-R1 / C06-R4 (renumbering and grouping in the multi-process merge path).
"""

import ast

from ..report import rule
from .. import norm, cfg as cfgmod, guards
from ..traces import Tracer, fmt, first_index, last_index
from ..model import AnalysisError
from .common import calls_of, find_calls, returns_of, is_abstract_body, body_is_trivial, bind_args

RAW_FS_OK = {
    "whoosh.filedb.filestore": "the file-system Storage implementation",
    "whoosh.util.filelock": "lock files",
    "whoosh.externalsort": "SortingPool's default temp files (PostingPool overrides them to go through a Storage)",
    "whoosh.util.testing": "test helpers",
    "whoosh.filedb.gae": "App Engine datastore back-end",
    "whoosh.filedb.fileindex": "legacy module",
    "whoosh.support.bench": "benchmark harness",
    "whoosh.index": "create_in/exists_in/open_dir convenience: os.path.exists / os.mkdir of the index directory only",
    "whoosh.legacy": "legacy index conversion",
}
FS_MUTATORS = {("os", n) for n in ("remove", "rename", "unlink", "rmdir", "makedirs", "mkdir", "open", "replace", "truncate")} | \
    {("shutil", n) for n in ("rmtree", "move", "copy", "copyfile")} | {("tempfile", n) for n in ("mkstemp", "mkdtemp", "NamedTemporaryFile")}

STORAGE_API = ("create_file", "open_file", "list", "file_exists", "file_length", "file_modified", "delete_file",
               "rename_file", "lock", "temp_storage", "close")
STORAGE_REFUSALS = {
    ("filedb.compound.CompoundStorage", "create_file"): "read-only view of one compound segment file",
    ("filedb.compound.CompoundStorage", "delete_file"): "read-only view of one compound segment file",
    ("filedb.compound.CompoundStorage", "rename_file"): "read-only view of one compound segment file",
    ("filedb.compound.CompoundStorage", "temp_storage"): "read-only view of one compound segment file",
    ("filedb.filestore.OverlayStorage", "rename_file"): "overlay of a read-only compound storage and the real one; renaming is not needed by readers",
    ("filedb.filestore.OverlayStorage", "create_file"): "delegates or refuses by design",
}
WRITER_API = ("add_document", "update_document", "delete_document", "delete_by_term", "delete_by_query", "add_field",
              "remove_field", "commit", "cancel")


@rule("C18", "R1", "K3", "raw file-system mutation happens only inside the storage layer",
      min_instances=5,
      clause="os.remove/rename/unlink/rmdir/makedirs/open, shutil.* and tempfile.* are called only in the listed "
             "modules; everything else reaches files through Storage methods (so RamStorage, compound files and "
             "directories behave alike).")
def c18_r1(ctx):
    prog = ctx.prog
    n = 0
    for f in prog.functions.values():
        for c in norm.calls_in(f.node, include_nested_defs=True):
            if isinstance(c.func, ast.Attribute) and isinstance(c.func.value, ast.Name) and (c.func.value.id, c.func.attr) in FS_MUTATORS:
                n += 1
                mod = f.module.name
                ok = mod in RAW_FS_OK
                ctx.saw(f)
                ctx.ob(f, ok, "%s.%s(...) is inside the storage layer" % (c.func.value.id, c.func.attr),
                       detail=RAW_FS_OK.get(mod, "module %s is not part of the storage layer" % mod), loc=ctx.nodeloc(f, c))
            if isinstance(c.func, ast.Name) and c.func.id == "open" and len(c.args) >= 2 and isinstance(c.args[1], ast.Constant) \
                    and isinstance(c.args[1].value, str) and any(ch in c.args[1].value for ch in "wa+x"):
                n += 1
                mod = f.module.name
                ctx.ob(f, mod in RAW_FS_OK or mod.startswith(("whoosh.lang", "whoosh.support")), "open(..., %r) is inside the storage layer" % c.args[1].value,
                       loc=ctx.nodeloc(f, c))
    if n < 5:
        raise AnalysisError("only %d raw file-system call sites found" % n)


@rule("C18", "R2", "K10", "every Storage back-end implements the storage interface",
      min_instances=3,
      clause="Each concrete Storage resolves create_file, open_file, list, file_exists, file_length, file_modified, "
             "delete_file, rename_file, lock, temp_storage and close to a working body; deliberate refusals are listed "
             "with their reason.")
def c18_r2(ctx):
    prog = ctx.prog
    base = prog.cls("filedb.filestore.Storage")
    for cls in prog.subclasses(base, strict=True):
        if cls.module.name in ("whoosh.filedb.gae",):
            continue
        for m in STORAGE_API:
            f = prog.lookup(cls, m)
            refused = (cls.short, m) in STORAGE_REFUSALS
            ok = f is not None and (not is_abstract_body(f) or refused)
            if f is not None and f.cls is base and body_is_trivial(f) and m == "close":
                ok = True
            ctx.ob(cls, ok, "%s() is implemented%s" % (m, " (or refuses by design)" if refused else ""),
                   detail="resolves to %s, which only raises NotImplementedError" % f.short if f is not None and not ok else "", loc=cls.loc)


@rule("C18", "R3", "K10", "every writer front-end offers a working version of every mutating writer method",
      min_instances=4,
      clause="AsyncWriter, BufferedWriter, MpWriter and SerialMpWriter implement or inherit a non-abstract, "
             "non-trivial body for add/update/delete/add_field/remove_field/commit/cancel; AsyncWriter records each "
             "call under the real method's name.")
def c18_r3(ctx):
    prog = ctx.prog
    base = prog.cls("writing.IndexWriter")
    for cname in ("writing.AsyncWriter", "writing.BufferedWriter", "multiproc.MpWriter", "multiproc.SerialMpWriter", "writing.SegmentWriter"):
        cls = prog.cls(cname)
        for m in WRITER_API:
            f = prog.lookup(cls, m)
            ok = f is not None and not is_abstract_body(f)
            trivial = f is not None and f.cls is base and body_is_trivial(f)
            ctx.ob(cls, ok and not trivial, "%s() has a real implementation" % m,
                   detail=("inherits the base class's empty %s(): the call silently does nothing" % m) if trivial else
                          ("abstract" if not ok else ""), loc=cls.loc)
    aw = prog.cls("writing.AsyncWriter")
    for m, f in aw.methods.items():
        recs = [c for c in norm.calls_in(f.node) if norm.call_name(c) == "_record"]
        for c in recs:
            nm = c.args[0].value if c.args and isinstance(c.args[0], ast.Constant) else None
            ctx.ob(f, nm == m, "records the call under its own method name", detail="_record(%r, ...) in %s" % (nm, m), loc=ctx.nodeloc(f, c))


@rule("C18", "R4", "K1", "flushing a buffered / multi-process writer leaves nothing unsaved",
      min_instances=3,
      clause="BufferedWriter.commit takes the RAM reader and installs a fresh RAM index inside one locked block, adds "
             "the RAM reader when documents were buffered and then commits the underlying writer on EVERY path (deletes "
             "made through that writer must be saved even when nothing is buffered); close() commits; "
             "MpWriter._commit enqueues the remaining buffer, then sends the stop sentinels, then joins, then collects "
             "results, then publishes.")
def c18_r4(ctx):
    prog = ctx.prog
    f = prog.method("writing.BufferedWriter", "commit", inherited=False)
    ctx.saw(f)

    def classify(func, call, res, concrete):
        t = norm.canon(call)
        if t.startswith("self.writer.commit("):
            return "writer.commit"
        if t.startswith("self.writer.cancel("):
            return "writer.cancel"
        if t.startswith("self.writer.add_reader("):
            return "add_ram_reader"
        if t == "self._get_ram_reader()":
            return "take_ram"
        if t == "self._make_ram_index()":
            return "new_ram"
        if t.startswith("self.index.writer("):
            return "reopen"
        return None
    tr = Tracer(prog, calls_of(prog), classify, follow=lambda *a: [], max_depth=0)
    res = tr.traces(f, None)
    bad = [t for t in res["normal"] if "writer.commit" not in t or "writer.cancel" in t]
    ctx.ob(f, bool(res["normal"]) and not bad, "the underlying writer is committed on every path (never cancelled)",
           detail="path: %s -- deletions applied through the underlying writer would be thrown away" % fmt(bad[0]) if bad else "")
    bad = [t for t in res["normal"] if "add_ram_reader" in t and "writer.commit" in t and t.index("add_ram_reader") > t.index("writer.commit")]
    ctx.ob(f, not bad, "buffered documents are added before the commit", detail=fmt(bad[0]) if bad else "")
    bad = [t for t in res["normal"] if "reopen" in t and "writer.commit" in t and t.index("reopen") < t.index("writer.commit")]
    ctx.ob(f, not bad, "a new underlying writer is opened only after the commit", detail=fmt(bad[0]) if bad else "")
    # take + replace of the RAM index in one locked block
    g = cfgmod.cfg_of(f)
    locked = {}
    for n in g.nodes:
        for frag in cfgmod.node_exprs(n):
            for c in norm.calls_in(frag):
                t = norm.canon(c)
                if t in ("self._get_ram_reader()", "self._make_ram_index()"):
                    locked[t] = [id(w) for w in (n.ctx or ()) if norm.canon(w) == "self.lock"] and \
                        tuple(sorted(getattr(w, "lineno", 0) for w in (n.ctx or ()) if norm.canon(w) == "self.lock"))
    ctx.ob(f, len(locked) == 2 and all(locked.values()) and len(set(locked.values())) == 1,
           "the RAM reader is taken and the fresh RAM index installed inside the same `with self.lock` block", detail=str(locked))
    cl = prog.method("writing.BufferedWriter", "close", inherited=False)
    from .common import bound_arg
    commits = [c for c in find_calls(cl, "commit") if norm.canon(norm.receiver(c)) == "self"]
    ok = any(isinstance(bound_arg(prog, cl, c, "restart"), ast.Constant) and bound_arg(prog, cl, c, "restart").value is False for c in commits)
    ctx.ob(cl, ok, "close() commits (without reopening)")
    ad = prog.method("writing.BufferedWriter", "add_document", inherited=False)
    ctx.ob(ad, "self.bufferedcount += 1" in norm.stmt_text(ad.node), "add_document counts what it buffers")
    # MpWriter._commit
    mc = prog.method("multiproc.MpWriter", "_commit", inherited=False)
    ctx.saw(mc)

    def classify2(func, call, res, concrete):
        t = norm.canon(call)
        if t == "self._enqueue()":
            return "flush_buffer"
        if t == "self.jobqueue.put(None)":
            return "sentinel"
        if t == "task.join()":
            return "join"
        if t.startswith("self.resultqueue.get("):
            return "collect"
        if t.startswith("self._commit_toc("):
            return "publish"
        if t == "self._finish()":
            return "finish"
        return None

    def edge2(func, node, label):
        if node.kind == "test" and norm.canon(node.ast) == "self.docbuffer":
            return "buffer:" + label[0]
        return None
    tr2 = Tracer(prog, calls_of(prog), classify2, follow=lambda *a: [], edge_event=edge2, max_depth=0)
    res2 = tr2.traces(mc, None)
    bad = None
    for t in res2["normal"]:
        order = [e for e in t if not e.startswith("buffer:")]
        idx = lambda name: [i for i, e in enumerate(order) if e == name]
        ok = "publish" in order and order[-1] == "finish"
        if "buffer:T" in t:
            ok = ok and "flush_buffer" in order
        if "flush_buffer" in order and "sentinel" in order:
            ok = ok and max(idx("flush_buffer")) < min(idx("sentinel"))
        if "sentinel" in order and "join" in order:
            ok = ok and max(idx("sentinel")) < min(idx("join"))
        if "join" in order and "collect" in order:
            ok = ok and max(idx("join")) < min(idx("collect"))
        if "collect" in order:
            ok = ok and max(idx("collect")) < order.index("publish")
        if not ok:
            bad = t
    ctx.ob(mc, bool(res2["normal"]) and bad is None, "remaining buffer -> stop sentinels -> join -> collect results -> publish -> finish",
           detail=fmt(bad) if bad else "")


def _reads_index(prog, cls, name, seen=None, func=None):
    """does method `name`, as resolved for `cls` (or the given function, run with self of class `cls`), reach -- through
    self-calls and explicit `Base.m(self, ...)` calls -- a call of self.searcher()/self.reader()?  Returns the chain or None."""
    seen = seen if seen is not None else set()
    f = func if func is not None else prog.lookup(cls, name)
    if f is None or f.qualname in seen:
        return None
    seen.add(f.qualname)
    for c in norm.calls_in(f.node):
        t = norm.canon(c.func)
        if t in ("self.searcher", "self.reader"):
            return [f.short]
        if isinstance(c.func, ast.Attribute) and isinstance(c.func.value, ast.Name):
            recv = c.func.value.id
            if recv == "self":
                r = _reads_index(prog, cls, c.func.attr, seen)
                if r:
                    return [f.short] + r
            elif c.args and isinstance(c.args[0], ast.Name) and c.args[0].id == "self":
                base = [b for b in prog.mro(cls) if not isinstance(b, str) and b.name == recv]
                g = prog.lookup(base[0], c.func.attr) if base else None
                if g is not None:
                    r = _reads_index(prog, cls, c.func.attr, seen, func=g)
                    if r:
                        return [f.short] + r
    return None


@rule("C18", "R5", "K3", "a deferring writer front-end does not look documents up at call time",
      min_instances=1, also=("C07",),
      clause="AsyncWriter applies its calls later, possibly after other writers have committed and merged.  So every "
             "IndexWriter operation whose base implementation consults the index when it is called (opens self.searcher()/"
             "self.reader(): delete_by_term, delete_by_query, update_document), as resolved for AsyncWriter (its overrides, "
             "self-calls and explicit Base.m(self, ...) calls followed), must not reach self.searcher()/self.reader(): it has "
             "to be recorded by name for replay, else document numbers found now are applied to a renumbered index later.")
def c18_r5(ctx):
    prog = ctx.prog
    base = prog.cls("writing.IndexWriter")
    aw = prog.cls("writing.AsyncWriter")
    n = 0
    for name, bf in sorted(base.methods.items()):
        if name.startswith("_") or name in ("reader", "searcher", "commit", "cancel", "group", "start_group", "end_group"):
            continue
        if not _reads_index(prog, base, name):
            continue
        n += 1
        ctx.saw(bf)
        chain = _reads_index(prog, aw, name)
        ctx.ob(aw, not chain, "AsyncWriter.%s() does not consult the index when it is called" % name,
               detail="as resolved for AsyncWriter it reaches self.searcher()/self.reader() via %s: the document numbers found now are recorded "
                      "and applied after the lock is obtained -- by then a merge may have renumbered the documents" % " -> ".join(chain or []),
               loc=aw.loc)
    if n < 3:
        raise AnalysisError("only %d index-reading IndexWriter operations found" % n)


@rule("C18", "R6", "K10", "every attribute a writer front-end's public methods read is bound when that front-end is constructed",
      min_instances=5, also=("C06",),
      clause="For every IndexWriter subclass K: an attribute that only a base-class constructor binds, while constructing K never runs "
             "that constructor, is not read by a method reachable from K's public methods (add_document, group/start_group/end_group, "
             "commit, cancel, ...) -- the same call sequence must work on every front-end.")
def c18_r6(ctx):
    from .common import undefined_attribute_reads
    prog = ctx.prog
    base = prog.cls("writing.IndexWriter")
    n = 0
    for cls in prog.subclasses(base):
        n += 1
        bad = undefined_attribute_reads(prog, cls)
        for attr in sorted(set(a for a, _, _, _ in bad)):
            rows = [(f, line, entry) for a, f, line, entry in bad if a == attr]
            ctx.ob(cls, False, "self.%s is bound when a %s is constructed" % (attr, cls.name),
                   detail="read by %s (reached from %s); bound only by a base constructor that %s.__init__ does not call: AttributeError at run time" % (
                       ", ".join(sorted(set(f.short for f, _, _ in rows)))[:200], ", ".join(sorted(set(e + "()" for _, _, e in rows)))[:120], cls.name),
                   loc=cls.loc)
        if not bad:
            ctx.ob(cls, True, "every attribute read by %s's public methods is bound when it is constructed" % cls.name, loc=cls.loc)
    if n < 5:
        raise AnalysisError("only %d writer classes" % n)


@rule("C18", "R7", "K9", "the memory codec keeps every kind of per-document data where the next writer finds it",
      min_instances=1, also=("C08",),
      clause="BufferedWriter pushes each document through a new writer of one MemoryCodec, so whatever MemPerDocWriter is given for a "
             "document has to live on the shared MemSegment (keyed by document number), as stored fields, lengths and vectors do "
             "(finish_doc). Sibling agreement: no kind of per-document data is kept only in the writer instance or in a storage file "
             "the writer creates under a name that does not depend on the document -- the next writer would start it again.")
def c18_r7(ctx):
    prog = ctx.prog
    K = prog.cls("codec.memory.MemPerDocWriter")
    fd = K.methods.get("finish_doc")
    if fd is None:
        raise AnalysisError("MemPerDocWriter.finish_doc vanished")
    ctx.saw(fd)
    al = norm.aliases(fd.node)
    kept = sorted(set(norm.canon(t.value, al).split(".")[-1] for st in ast.walk(fd.node) if isinstance(st, ast.Assign) for t in st.targets
                      if isinstance(t, ast.Subscript) and norm.canon(t.value, al).startswith("self._segment.")))
    ctx.ob(fd, len(kept) >= 3, "finish_doc files the document's data on the shared segment", detail=str(kept))
    for name, f in sorted(K.methods.items()):
        creates = [c for c in norm.calls_in(f.node) if norm.call_name(c) == "create_file" and norm.canon(norm.receiver(c)).startswith("self._storage")]
        for c in creates:
            arg = c.args[0] if c.args else None
            per_doc = arg is not None and any(isinstance(x, ast.Name) and x.id in ("docnum",) or (isinstance(x, ast.Attribute) and x.attr == "_docnum")
                                              for x in ast.walk(arg))
            ctx.ob(f, per_doc, "MemPerDocWriter.%s() does not start a per-field file again for every writer" % name,
                   detail="create_file(%s): the file name does not depend on the document, and every BufferedWriter.add_document() makes a "
                          "new writer -- the values of earlier documents are overwritten" % (norm.canon(arg) if arg is not None else ""),
                   loc=ctx.nodeloc(f, c))


@rule("C18", "R8", "K9", "a terms reader that has to sort for terms_from() sorts for terms() too",
      min_instances=1, also=("C06",),
      clause="Sibling agreement inside each TermsReader class: if terms_from() wraps a container in sorted(...) -- the container has no "
             "order of its own -- then terms() does not iterate that container (or an item of it) bare. MultiReader merges the term "
             "streams of its sub-readers as sorted streams; an unsorted one yields terms out of order and twice (the RAM segment of a "
             "BufferedWriter next to committed segments).")
def c18_r8(ctx):
    prog = ctx.prog
    base = prog.cls("codec.base.TermsReader")
    n = 0

    def root(e):
        while isinstance(e, ast.Subscript):
            e = e.value
        return norm.canon(e)
    for K in prog.subclasses(base, strict=True):
        tf, tm = K.methods.get("terms_from"), K.methods.get("terms")
        if tf is None or tm is None:
            continue
        unordered = set()
        for c in norm.calls_in(tf.node):
            if isinstance(c.func, ast.Name) and c.func.id == "sorted" and c.args:
                unordered.add(root(c.args[0]))
        if not unordered:
            continue
        n += 1
        ctx.saw(tm)
        bare = [lp for lp in ast.walk(tm.node) if isinstance(lp, (ast.For, ast.comprehension)) and root(lp.iter) in unordered]
        ctx.ob(tm, not bare, "%s.terms() iterates in sorted order what terms_from() has to sort" % K.name,
               detail="iterates %s bare; terms_from() sorts %s" % (sorted(set(norm.canon(lp.iter) for lp in bare)), sorted(unordered)) if bare else "",
               loc=ctx.nodeloc(tm, bare[0].iter) if bare else None)
    if n < 1:
        raise AnalysisError("no terms reader sorts in terms_from() any more; re-confirm the rule")


@rule("C18", "R9", "K6", "a list matcher that is given a scorer is given the term's statistics too",
      min_instances=1, also=("C05", "C12"),
      clause="ListMatcher.block_min_length()/block_max_length() read self._terminfo unconditionally, and every length-normalising "
             "scorer calls them as soon as a search has a limit (block quality).  So every `ListMatcher(...)` in the package that "
             "passes a scorer also passes terminfo=.  The memory codec's terms reader did not: a BufferedWriter's searcher crashed "
             "on any limited search that matched a buffered document.")
def c18_r9(ctx):
    prog = ctx.prog
    init = prog.method("matching.mcore.ListMatcher", "__init__", inherited=False)
    n = 0
    for f in sorted(prog.functions.values(), key=lambda f: f.qualname):
        if f.module.name.startswith(("whoosh.lang", "whoosh.support")):
            continue
        for c in norm.calls_in(f.node):
            if norm.call_name(c) != "ListMatcher":
                continue
            m, _ = bind_args(c, init, skip_self=True)
            if not m or "scorer" not in m:
                continue
            sc = m["scorer"]
            if isinstance(sc, ast.Constant) and sc.value is None:
                continue
            n += 1
            ctx.saw(f)
            ti = m.get("terminfo")
            ok = ti is not None and not (isinstance(ti, ast.Constant) and ti.value is None)
            ctx.ob(f, ok, "ListMatcher(..., scorer=%s) is also given terminfo" % norm.canon(sc),
                   detail="" if ok else "block_min_length()/block_max_length() dereference a None terminfo when the collector asks for "
                                        "block quality", loc=ctx.nodeloc(f, c))
    if n == 0:
        raise AnalysisError("no scored ListMatcher is built any more")
