"""C02 -- a commit is atomic with respect to process crashes.

Decided clauses: the order of storage effects on every path of every commit
entry point (segment finished -> TOC written under a temp name -> renamed ->
old files cleaned -> lock released), the TOC temp name being invisible to the
generation scan, the polarity of clean_files, and who may delete/rename index
files.
"""

import ast
import re

try:
    import re._parser as sre_parse
    import re._constants as sre_constants
except ImportError:  # python < 3.11
    import sre_parse
    import sre_constants

from ..report import rule
from .. import norm, cfg as cfgmod, guards
from ..traces import Tracer, fmt, first_index, last_index
from ..model import AnalysisError
from .common import calls_of, writer_classes, find_calls, bind_args

FOLLOW_MODULES = {"whoosh.writing", "whoosh.multiproc", "whoosh.index", "whoosh.codec.base",
                  "whoosh.filedb.compound"}

# delete_file call sites and the storage each acts on (confirmed by reading).
DELETE_SITES = {
    "index.clean_files": "index storage, after the new TOC is published",
    "index.TOC.create": "index storage, index (re)creation only",
    "codec.base.Segment.create_compound_file": "index storage, members of the *new* segment after they were copied into the compound file",
    "filedb.compound.CompoundWriter._readback": "writer temp storage",
    "writing.PostingPool._remove_run": "writer temp storage",
    "multiproc.SubWriterTask._process_file": "writer temp storage (job files)",
    "filedb.filestore.OverlayStorage.delete_file": "pure delegation",
}
RENAME_SITES = {
    "index.TOC.write": "publishes the TOC: temp name -> final name",
    "filedb.filestore.OverlayStorage.rename_file": "refusal (raises)",
}
TEMP_RECEIVER = re.compile(r"temp", re.I)


def _recv_text(call, al):
    r = norm.receiver(call)
    return norm.canon(r, al) if r is not None else ""


def make_classifier(prog):
    toc_write = prog.method("index.TOC", "write")
    clean = prog.func("index.clean_files")
    assemble = prog.method("filedb.compound.CompoundStorage", "assemble")

    def classify(func, call, res, concrete):
        name = norm.call_name(call)
        if name is None:
            return None
        al = norm.aliases(func.node)
        if name == "write" and toc_write in res.targets and res.kind in ("exact", "typed", "cha"):
            return "TOC.write"
        if name == "clean_files" and clean in res.targets:
            return "clean_files"
        if name == "delete_file":
            return "delete_file@" + func.short
        if name == "rename_file":
            return "rename_file@" + func.short
        if name in ("os.remove", "remove", "unlink", "rename") and isinstance(call.func, ast.Attribute) \
                and isinstance(call.func.value, ast.Name) and call.func.value.id == "os":
            return "os.%s@%s" % (name, func.short)
        recv = _recv_text(call, al)
        if name == "release" and "writelock" in recv:
            return "lock.release"
        if name == "acquire" and "writelock" in recv:
            return "lock.acquire"
        if name == "destroy" and "temp" in recv.lower():
            return "temp.destroy"
        if name == "close" and recv in ("self.perdocwriter", "self.fieldwriter"):
            return "close:" + recv.split(".")[-1]
        if name == "add_postings" and recv == "self.fieldwriter":
            return "write_terms"
        if name == "assemble" and assemble in res.targets:
            return "compound.assemble"
        if name == "create_file" and func.short == "index.TOC.write":
            return "toc.create_file"
        if name == "_read_toc":
            return "read_toc"
        return None

    policies = [prog.func("writing." + n) for n in MERGE_POLICIES]

    def follow(func, call, res, concrete):
        if isinstance(call.func, ast.Name) and call.func.id == "mergetype" and func.name == "_merge_segments":
            # function value: one of the shipped merge policies (frozen table)
            return [(p, None) for p in policies]
        if res.kind == "byname":
            ts = [t for t in res.targets if t.module.name in FOLLOW_MODULES]
            if len(ts) != len(res.targets) or len(ts) > 3 or norm.call_name(call) in ("write", "close", "add"):
                return []
            return [(t, None) for t in ts]
        if res.kind not in ("exact", "cha", "typed"):
            return []
        out = []
        for t in res.targets:
            if t.module.name not in FOLLOW_MODULES:
                continue
            c = None
            f = call.func
            if isinstance(f, ast.Attribute):
                if isinstance(f.value, ast.Name) and f.value.id == "self":
                    c = concrete
                elif call.args and isinstance(call.args[0], ast.Name) and call.args[0].id == "self":
                    c = concrete
            out.append((t, c))
        return out

    return classify, follow


def tracer_for(prog):
    t = getattr(prog, "_c02_tracer", None)
    if t is None:
        classify, follow = make_classifier(prog)
        t = Tracer(prog, calls_of(prog), classify, follow, max_depth=7)
        prog._c02_tracer = t
    return t


# the values `mergetype` can take in SegmentWriter._merge_segments (module
# functions of whoosh.writing taking (writer, segments))
MERGE_POLICIES = ["NO_MERGE", "MERGE_SMALL", "OPTIMIZE", "CLEAR"]

# writers that by design never publish a TOC (one line of reason each)
NON_PUBLISHING = {
    "codec.memory.MemWriter": "RAM-only segment of the memory codec (BufferedWriter's buffer); created with "
                              "_lk=False on a private RamStorage and never writes or cleans a TOC",
}


def publishing_writers(prog):
    return [c for c in writer_classes(prog) if c.short not in NON_PUBLISHING]


SEG_EVENTS = ("close:perdocwriter", "close:fieldwriter", "write_terms", "compound.assemble")


def _is_index_delete(ev):
    if not ev.startswith("delete_file@"):
        return False
    site = ev.split("@", 1)[1]
    why = DELETE_SITES.get(site, "")
    return "temp storage" not in why and "delegation" not in why


@rule("C02", "R1", "K1", "commit order: segment finished < TOC.write < clean_files < finish, on every path",
      min_instances=4,
      clause="On every non-exceptional path of every writer's commit(), all segment-file writes/closes "
             "and compound assembly precede TOC.write; clean_files and every index-file deletion other "
             "than new-segment member deletion come after it; TOC.write happens on every such path.",
      assumes=["explicit control flow only: an exception thrown by a callee mid-commit is a crash point, "
               "which the ordering argument already covers"])
def c02_r1(ctx):
    prog = ctx.prog
    tr = tracer_for(prog)
    for c in publishing_writers(prog):
        f = prog.lookup(c, "commit")
        if f is None:
            raise AnalysisError("%s has no commit()" % c.short)
        ctx.saw(f)
        res = tr.traces(f, c)
        name = "%s.commit [self=%s]" % (f.short.rsplit(".", 1)[0], c.name)
        normal = sorted(res["normal"])
        ctx.ob(name, len(normal) > 0, "has at least one non-exceptional path", loc=f.loc)
        bad_missing = [t for t in normal if "TOC.write" not in t]
        ctx.ob(name, not bad_missing, "every normal path writes the TOC",
               detail="path without TOC.write: %s" % fmt(bad_missing[0]) if bad_missing else "",
               loc=f.loc)
        bad = None
        for t in normal:
            if "TOC.write" not in t:
                continue
            i = t.index("TOC.write")
            late = [e for e in t[i + 1:] if e in SEG_EVENTS]
            if late:
                bad = (t, late[0])
                break
        ctx.ob(name, bad is None, "no segment write/close/assembly after TOC.write",
               detail="%s happens after the TOC is published: %s" % (bad[1], fmt(bad[0])) if bad else "",
               loc=f.loc)
        bad = None
        for t in normal:
            if "TOC.write" not in t:
                continue
            i = t.index("TOC.write")
            early = [e for e in t[:i] if e == "clean_files" or
                     (_is_index_delete(e) and not e.endswith("@codec.base.Segment.create_compound_file"))
                     or e.startswith("os.")]
            if early:
                bad = (t, early[0])
                break
        ctx.ob(name, bad is None, "no clean-up or index-file deletion before TOC.write",
               detail="%s precedes the TOC write: %s" % (bad[1], fmt(bad[0])) if bad else "", loc=f.loc)
        bad = [t for t in normal if "TOC.write" in t and "clean_files" not in t[t.index("TOC.write"):]]
        ctx.ob(name, not bad, "clean_files runs after TOC.write on every normal path (orphans are removed)",
               detail=fmt(bad[0]) if bad else "", loc=f.loc)
        bad = [t for t in normal if t.count("TOC.write") > 1]
        ctx.ob(name, not bad, "TOC written once per commit", detail=fmt(bad[0]) if bad else "", loc=f.loc)
    # new-segment member deletion comes after the members were copied
    ccf = prog.method("codec.base.Segment", "create_compound_file", inherited=False)
    res = tr.traces(ccf, None)
    bad = None
    for t in res["normal"]:
        d = first_index(t, lambda e: e.startswith("delete_file@"))
        a = first_index(t, lambda e: e == "compound.assemble")
        if d >= 0 and (a < 0 or a > d):
            bad = t
    ctx.ob(ccf, bad is None and any("compound.assemble" in t for t in res["normal"]),
           "member files are deleted only after CompoundStorage.assemble",
           detail=fmt(bad) if bad else "")
    # assemble() itself closes the compound file before returning
    asm = prog.method("filedb.compound.CompoundStorage", "assemble")
    wd = prog.method("filedb.compound.CompoundStorage", "write_dir")
    closes = [c for c in find_calls(wd, "close")]
    calls_wd = [c for c in find_calls(asm, "write_dir")]
    ctx.ob(asm, bool(closes) and bool(calls_wd), "assemble -> write_dir closes the compound file before members are deleted")


@rule("C02", "R2", "K1", "TOC is written under a temporary name and published by rename as the last step",
      min_instances=1,
      clause="TOC.write creates the stream under a name derived from, and different from, the final "
             "name; all writes precede close, close precedes rename(temp, final), rename is last.")
def c02_r2(ctx):
    prog = ctx.prog
    f = prog.method("index.TOC", "write", inherited=False)
    ctx.saw(f)
    creates = find_calls(f, "create_file")
    renames = find_calls(f, "rename_file")
    ctx.ob(f, len(creates) == 1 and len(renames) == 1, "exactly one create_file and one rename_file",
           detail="create_file x%d, rename_file x%d" % (len(creates), len(renames)))
    if len(creates) != 1 or len(renames) != 1:
        return
    create, rename = creates[0], renames[0]
    defs = norm.definitions(f.node)
    # final name: result of _filename(indexname, self.generation)
    tmp_arg = create.args[0] if create.args else None
    ren_src = rename.args[0] if len(rename.args) > 0 else None
    ren_dst = rename.args[1] if len(rename.args) > 1 else None

    def is_final(e):
        e2 = norm.inline_defs(e, f.node)
        return isinstance(e2, ast.Call) and norm.call_name(e2) == "_filename" and \
            any("generation" in norm.canon(a) for a in e2.args)

    def derived_temp(e):
        """expression mentions the final name and adds something to it"""
        if e is None:
            return False
        e1 = e
        if isinstance(e, ast.Name) and e.id in defs:
            e1 = defs[e.id]
        if not isinstance(e1, (ast.BinOp, ast.JoinedStr, ast.Call)):
            return False
        finals = [n for n in ast.walk(e1) if isinstance(n, (ast.Name, ast.Call)) and is_final(n)]
        return bool(finals) and not is_final(e1)

    ctx.ob(f, derived_temp(tmp_arg), "stream is created under a temporary name derived from the final TOC name",
           detail="create_file(%s)" % (norm.canon(tmp_arg) if tmp_arg is not None else "?"),
           loc=ctx.nodeloc(f, create))
    same_tmp = tmp_arg is not None and ren_src is not None and norm.deep_canon(tmp_arg, f.node) == norm.deep_canon(ren_src, f.node)
    ctx.ob(f, same_tmp and ren_dst is not None and is_final(ren_dst),
           "rename_file(temp, final) -- source is the created temp file, destination the final TOC name",
           detail="rename_file(%s, %s)" % (norm.canon(ren_src) if ren_src is not None else "?",
                                          norm.canon(ren_dst) if ren_dst is not None else "?"),
           loc=ctx.nodeloc(f, rename))
    # order on every path: create < every stream.write_* < stream.close < rename ; rename last
    stream = None
    for name, v in defs.items():
        if v is create:
            stream = name
    ctx.ob(f, stream is not None, "the created stream is bound to a local")
    if stream is None:
        return

    def classify(func, call, res, concrete):
        if call is create:
            return "create"
        if call is rename:
            return "rename"
        r = norm.receiver(call)
        if isinstance(r, ast.Name) and r.id == stream:
            n = norm.call_name(call)
            if n == "close":
                return "close"
            if n.startswith("write"):
                return "write"
        return None

    tr = Tracer(prog, calls_of(prog), classify, follow=lambda *a: [], max_depth=0)
    res = tr.traces(f, None)
    bad = None
    for t in res["normal"]:
        ok = t and t[0] == "create" and t[-1] == "rename" and "close" in t and \
            last_index(t, lambda e: e == "write") < t.index("close") < t.index("rename") and t.count("rename") == 1
        if not ok:
            bad = t
    ctx.ob(f, bad is None and len(res["normal"]) > 0,
           "every normal path is create, write*, close, rename (rename last)",
           detail=fmt(bad) if bad else "")
    # FileStorage.rename_file must not silently clobber unless asked: safe=True passed
    safe = [k for k in rename.keywords if k.arg == "safe"]
    ctx.ob(f, (safe and isinstance(safe[0].value, ast.Constant) and safe[0].value.value is True) or
           len(rename.args) > 2, "rename is requested in safe mode (never replaces an existing generation)")


def _regex_of(prog, func):
    """(format string, folded sample) of `re.compile(fmt % indexname)` returned by func."""
    for n in ast.walk(func.node):
        if isinstance(n, ast.Call) and norm.call_name(n) in ("compile", "rcompile") and n.args:
            a = n.args[0]
            if isinstance(a, ast.BinOp) and isinstance(a.op, ast.Mod) and isinstance(a.left, ast.Constant):
                return a.left.value
            if isinstance(a, ast.Constant):
                return a.value
    raise AnalysisError("no re.compile(<literal> %% name) in %s" % func.short)


@rule("C02", "R3", "K4", "temporary TOC names are invisible to the generation scan; segment pattern covers segment names",
      min_instances=3,
      clause="TOC._pattern is end-anchored directly after 'toc' so '<final>.<suffix>' never matches; "
             "_latest_generation and clean_files use .match on it; TOC._segment_pattern's id class "
             "covers the id alphabet and every codec file extension.")
def c02_r3(ctx):
    prog = ctx.prog
    pf = prog.method("index.TOC", "_pattern", inherited=False)
    fmt_s = _regex_of(prog, pf)
    sample = fmt_s.replace("%s", "IDX")
    try:
        parsed = sre_parse.parse(sample)
    except Exception as e:
        raise AnalysisError("cannot parse TOC._pattern regex %r: %s" % (sample, e))
    ops = list(parsed)
    end_anchored = bool(ops) and ops[-1][0] == sre_constants.AT and ops[-1][1] in (
        sre_constants.AT_END, sre_constants.AT_END_STRING)
    lits = []
    for op, av in ops[:-1][-3:]:
        if op == sre_constants.LITERAL:
            lits.append(chr(av))
    ctx.ob(pf, end_anchored and "".join(lits) == "toc",
           "TOC file pattern ends with 'toc' immediately followed by an end anchor",
           detail="pattern %r" % fmt_s)
    # the temp name adds a '.'-separated suffix after the final name
    wf = prog.method("index.TOC", "write", inherited=False)
    defs = norm.definitions(wf.node)
    creates = find_calls(wf, "create_file")
    tmpl = None
    if creates and creates[0].args:
        e = creates[0].args[0]
        if isinstance(e, ast.Name) and e.id in defs:
            e = defs[e.id]
        if isinstance(e, ast.BinOp) and isinstance(e.op, ast.Mod) and isinstance(e.left, ast.Constant) \
                and isinstance(e.left.value, str):
            tmpl = e.left.value
    ff = prog.method("index.TOC", "_filename", inherited=False)
    fn_tmpl = None
    for r in ast.walk(ff.node):
        if isinstance(r, ast.Return) and isinstance(r.value, ast.BinOp) and isinstance(r.value.left, ast.Constant):
            fn_tmpl = r.value.left.value
    ok = False
    detail = "temp template %r, final template %r" % (tmpl, fn_tmpl)
    if tmpl and fn_tmpl and tmpl.startswith("%s") and len(tmpl) > 2:
        final = fn_tmpl.replace("%s", "IDX", 1).replace("%s", "7", 1)
        temp = tmpl.replace("%s", final, 1).replace("%s", "1234.5")
        rx = re.compile(sample)
        ok = rx.match(final) is not None and rx.match(temp) is None and temp != final
        detail += "; final %r matches, temp %r %s" % (final, temp, "does not match" if rx.match(temp) is None else "MATCHES")
    ctx.ob(wf, ok, "temp TOC name (final + suffix) is not matched by the TOC pattern while the final name is",
           detail=detail)
    # users of the pattern use .match (anchored at the start)
    for qn in ("index.TOC._latest_generation", "index.clean_files"):
        f = prog.func(qn)
        ctx.saw(f)
        uses = []
        for c in norm.calls_in(f.node, include_nested_defs=True):
            if norm.call_name(c) in ("match", "search", "findall", "fullmatch"):
                r = norm.deep_canon(norm.receiver(c), f.node)
                if "_pattern(" in r and "_segment_pattern" not in r:
                    uses.append(norm.call_name(c))
        ctx.ob(f, uses and all(u in ("match", "fullmatch") for u in uses),
               "TOC pattern is applied with .match", detail="uses: %s" % uses)
    # segment pattern: id class covers IDCHARS; extensions covered
    sf = prog.method("index.TOC", "_segment_pattern", inherited=False)
    sfmt = _regex_of(prog, sf)
    ssample = sfmt.replace("%s", "IDX")
    srx = re.compile(ssample)
    util = prog.module("util")
    idchars = prog.fold_str(util, util.assigns.get("IDCHARS")) if "IDCHARS" in util.assigns else None
    if not isinstance(idchars, str):
        raise AnalysisError("util.IDCHARS is no longer a literal string")
    exts = set()
    for c in prog.classes.values():
        if not c.qualname.startswith("whoosh.codec."):
            continue
        for k, v in c.attrs.items():
            if k.endswith("_EXT") or k.endswith("EXT"):
                s = prog.fold_str(c.module, v, c)
                if isinstance(s, str):
                    exts.add(s)
    bad = []
    for ext in sorted(exts):
        name = "IDX_" + idchars + ext
        m = srx.match(name)
        if not m or m.group(1) != "IDX_" + idchars or m.end() != len(name):
            bad.append(ext)
    ctx.ob(sf, not bad and len(exts) >= 4,
           "segment-file pattern recognises <index>_<any id over IDCHARS><ext> for every codec extension",
           detail="extensions %s; unmatched %s" % (sorted(exts), bad))


@rule("C02", "R4", "K2", "clean_files deletes a file only if it is a non-current TOC or belongs to an unlisted segment",
      min_instances=1,
      clause="Each todelete.add(f) is control-dependent on (TOC-match and generation != gen) or "
             "(segment-match and id not in the ids of the `segments` argument); _commit_toc passes "
             "its own generation and the list it just wrote.")
def c02_r4(ctx):
    prog = ctx.prog
    f = prog.func("index.clean_files")
    ctx.saw(f)
    params = f.params
    if params[:4] != ["storage", "indexname", "gen", "segments"]:
        raise AnalysisError("clean_files signature changed: %s" % params)
    fa = guards.Facts(f, textfn=lambda e: norm.deep_canon(e, f.node))
    g = fa.g
    from .. import paths as P
    textfn = lambda e: norm.deep_canon(e, f.node)
    localfns = P.local_functions(f.node)
    adds = []
    deletes = []
    for n in g.nodes:
        for frag in cfgmod.node_exprs(n):
            for c in norm.calls_in(frag):
                if norm.call_name(c) == "add" and n.kind == "stmt":
                    adds.append((n, c))
                if norm.call_name(c) == "delete_file":
                    deletes.append((n, c))
    # selection sites: `<set>.add(name)` statements in the scan loop, and comprehensions over the storage listing
    selections = []   # (where, collection name or None, [path, ...]) ; a path = frozenset of (pol, text)
    for n, c in adds:
        entries = fa.per_entry(n) or [fa.at(n) or frozenset()]
        selections.append((n.ast, norm.root_name(norm.receiver(c), f.node), [frozenset(e) for e in entries]))
    for st in ast.walk(f.node):
        if isinstance(st, ast.Assign) and len(st.targets) == 1 and isinstance(st.targets[0], ast.Name):
            comp = None
            v = st.value
            if isinstance(v, (ast.SetComp, ast.ListComp)):
                comp = v
            elif isinstance(v, ast.Call) and norm.call_name(v) in ("set", "list", "frozenset", "sorted") and len(v.args) == 1 \
                    and isinstance(v.args[0], (ast.GeneratorExp, ast.ListComp, ast.SetComp)):
                comp = v.args[0]
            if comp is None or len(comp.generators) != 1:
                continue
            gen = comp.generators[0]
            if textfn(gen.iter) not in ("storage", "storage.list()") or not isinstance(gen.target, ast.Name) or norm.canon(comp.elt) != gen.target.id:
                continue
            cond = ast.BoolOp(op=ast.And(), values=list(gen.ifs)) if len(gen.ifs) > 1 else (gen.ifs[0] if gen.ifs else ast.Constant(value=True))
            selections.append((st, st.targets[0].id, P.true_paths(cond, textfn, localfns)))
    ctx.ob(f, bool(selections) and len(deletes) == 1, "two guarded additions to the delete set and one delete loop",
           detail="%d selection sites, %d delete sites" % (len(selections), len(deletes)))
    for where, coll, pths in selections:
        bad = None
        for facts in pths:
            true_facts = [t for (p, t) in facts if p == "T"]
            false_facts = [t for (p, t) in facts if p == "F"]
            # `m is not None` says the same as `m` for a match object
            for t in list(false_facts):
                mm = re.match(r"^\(None is (.*)\)$", t) or re.match(r"^\((.*) is None\)$", t)
                if mm:
                    true_facts.append(mm.group(1))
            # (comparison facts are stored in positive form: `a != b` true is recorded as `a == b` false)
            toc_ok = any("_pattern(indexname).match(" in t and ".group(" not in t and "_segment_pattern" not in t for t in true_facts) and \
                any(re.match(r"^\((gen == int\(.*_pattern\(indexname\)\.match\(.*\)\.group\(1\)\)|int\(.*_pattern\(indexname\)\.match\(.*\)\.group\(1\)\) == gen)\)$", t)
                    for t in false_facts)
            seg_ok = any("_segment_pattern(indexname).match(" in t and ".group(" not in t for t in true_facts) and \
                any(" in " in t and "_segment_pattern(indexname).match(" in t.split(" in ")[0]
                    and "segment_id()" in t.split(" in ", 1)[1] and "segments" in t.split(" in ", 1)[1]
                    for t in false_facts)
            if not (toc_ok or seg_ok):
                bad = facts
        ctx.ob(f, bool(pths) and bad is None, "deletion candidate is guarded by (toc & gen differs) or (segment & id unlisted)",
               detail="a way to select a file: %s" % sorted(bad) if bad is not None else "", loc=ctx.nodeloc(f, where))
    # the deleted names come from the guarded set only
    for n, c in deletes:
        arg = c.args[0] if c.args else None
        src_ok = False
        if isinstance(arg, ast.Name):
            # loop variable over the set the selections fill
            for fn in ast.walk(f.node):
                if isinstance(fn, ast.For) and isinstance(fn.target, ast.Name) and fn.target.id == arg.id:
                    it = norm.root_name(fn.iter, f.node)
                    src_ok = any(coll == it for _, coll, _ in selections)
        ctx.ob(f, src_ok, "delete_file is applied only to names collected in the guarded set",
               loc=ctx.nodeloc(f, c))
    ct = prog.method("writing.SegmentWriter", "_commit_toc", inherited=False)
    ctx.saw(ct)
    tocs = [c for c in norm.calls_in(ct.node) if norm.call_name(c) == "TOC"]
    cleans = find_calls(ct, "clean_files")
    ok = False
    detail = ""
    if len(tocs) == 1 and len(cleans) == 1:
        toc_init = prog.method("index.TOC", "__init__")
        m1, p1 = bind_args(tocs[0], toc_init)
        m2, p2 = bind_args(cleans[0], f)
        if m1 and m2:
            cal = norm.aliases(ct.node)
            ok = (norm.canon(m1.get("generation"), cal) == norm.canon(m2.get("gen"), cal) == "self.generation"
                  and norm.canon(m1.get("segments"), cal) == norm.canon(m2.get("segments"), cal)
                  and norm.canon(m2.get("storage"), cal) == "self.storage"
                  and norm.canon(m1.get("schema"), cal) == "self.schema")
            detail = "TOC(%s) / clean_files(%s)" % (
                ", ".join("%s=%s" % (k, norm.canon(v)) for k, v in m1.items()),
                ", ".join("%s=%s" % (k, norm.canon(v)) for k, v in m2.items()))
    ctx.ob(ct, ok, "_commit_toc passes self.generation and the same segment list to TOC(...) and clean_files(...)",
           detail=detail)
    # toc.write targets the index storage and name
    writes = [c for c in find_calls(ct, "write")]
    okw = False
    if len(writes) == 1:
        mw, pw = bind_args(writes[0], prog.method("index.TOC", "write", inherited=False))
        okw = bool(mw) and not pw and norm.canon(mw.get("storage"), norm.aliases(ct.node)) == "self.storage" and \
            norm.canon(mw.get("indexname"), norm.aliases(ct.node)) == "self.indexname"
    ctx.ob(ct, okw, "toc.write(self.storage, self.indexname)")


@rule("C02", "R5", "K3", "only the listed functions delete or rename files through a Storage",
      min_instances=6,
      clause="delete_file / rename_file call sites are exactly the frozen table (index vs temp storage); "
             "raw os.remove/os.rename/os.unlink stay inside filedb/filestore.py, util/filelock.py, externalsort.py.")
def c02_r5(ctx):
    prog = ctx.prog
    seen_del = set()
    seen_ren = set()
    RAW_OK = ("whoosh.filedb.filestore", "whoosh.util.filelock", "whoosh.externalsort",
              "whoosh.util.testing", "whoosh.filedb.gae", "whoosh.support.bench", "whoosh.filedb.fileindex")
    for f in prog.functions.values():
        al = None
        for c in norm.calls_in(f.node, include_nested_defs=True):
            n = norm.call_name(c)
            if n == "delete_file":
                if f.name == "delete_file" and f.cls is not None and f.short not in DELETE_SITES:
                    continue  # Storage.delete_file implementations delegating to themselves
                seen_del.add(f.short)
                al = al or norm.aliases(f.node)
                recv = _recv_text(c, al)
                listed = f.short in DELETE_SITES
                temp = bool(TEMP_RECEIVER.search(recv))
                ctx.ob(f, listed or temp, "delete_file call site is in the reviewed table (or acts on a temp storage)",
                       detail="receiver %s" % recv, loc=ctx.nodeloc(f, c))
            elif n == "rename_file":
                seen_ren.add(f.short)
                ctx.ob(f, f.short in RENAME_SITES, "rename_file call site is in the reviewed table",
                       loc=ctx.nodeloc(f, c))
            elif n in ("remove", "rename", "unlink", "rmdir", "replace", "rmtree", "truncate") and \
                    isinstance(c.func, ast.Attribute) and isinstance(c.func.value, ast.Name) and \
                    c.func.value.id in ("os", "shutil"):
                ctx.ob(f, f.module.name in RAW_OK, "raw file-system mutation stays in the storage layer",
                       detail="%s.%s" % (c.func.value.id, n), loc=ctx.nodeloc(f, c))
    for site in DELETE_SITES:
        if site not in seen_del and not site.endswith("OverlayStorage.delete_file"):
            raise AnalysisError("reviewed delete_file site %s no longer exists; re-confirm the table" % site)
    if "index.TOC.write" not in seen_ren:
        raise AnalysisError("TOC.write no longer calls rename_file")


@rule("C02", "R6", "K1", "nothing but commit publishes or deletes: cancel and the document-level API never reach TOC.write/clean_files",
      min_instances=8,
      clause="cancel(), __init__, add/update/delete entry points of every writer emit no TOC.write, "
             "rename_file, clean_files or index-storage delete_file event on any path.")
def c02_r6(ctx):
    prog = ctx.prog
    tr = tracer_for(prog)
    entries = ["cancel", "__init__", "add_document", "update_document", "delete_document",
               "delete_by_term", "delete_by_query", "add_reader", "add_field", "remove_field"]
    for k in NON_PUBLISHING:
        prog.cls(k)
    for c in writer_classes(prog):
        for m in entries:
            f = prog.lookup(c, m)
            if f is None:
                continue
            ctx.saw(f)
            res = tr.traces(f, c)
            bad = None
            for t in list(res["normal"]) + list(res["raise"]):
                for e in t:
                    if e in ("TOC.write", "clean_files") or e.startswith("rename_file@") or _is_index_delete(e) \
                            or e.startswith("os."):
                        bad = (t, e)
            ctx.ob("%s.%s [self=%s]" % (f.short.rsplit(".", 1)[0], m, c.name), bad is None,
                   "does not publish a TOC or delete/rename index files",
                   detail="%s in %s" % (bad[1], fmt(bad[0])) if bad else "", loc=f.loc)


RENAME_EFFECTS_OK = ("os.path.exists", "os.remove", "os.rename", "os.replace", "os.path.join", "self._fpath")


@rule("C02", "R7", "K3", "a name becomes visible in the index directory only complete: rename_file() creates nothing itself",
      min_instances=1, also=("C04",),
      clause="FileStorage.rename_file() -- the step that publishes a finished TOC under its final name -- touches the file system "
             "only through os.path.exists, os.remove (non-safe mode) and os.rename/os.replace: it never opens or creates a file at "
             "the new name (a placeholder created first would be an empty _MAIN_<gen>.toc that readers can see and try to load).")
def c02_r7(ctx):
    prog = ctx.prog
    f = prog.method("filedb.filestore.FileStorage", "rename_file", inherited=False)
    ctx.saw(f)
    al = norm.aliases(f.node)
    effects = []
    for c in norm.calls_in(f.node):
        t = norm.canon(c.func, al)
        if t.startswith("os.") or t in ("open", "io.open") or t.startswith("shutil.") or t.startswith("self."):
            effects.append(t)
    bad = [t for t in effects if t not in RENAME_EFFECTS_OK]
    renames = [t for t in effects if t in ("os.rename", "os.replace")]
    ctx.ob(f, not bad and len(renames) == 1, "rename_file's only file-system effects are exists / remove / one rename",
           detail="other effects: %s" % bad if bad else "renames: %s" % renames)


@rule("C02", "R8", "K4", "what names a segment's files is recognised by the pattern that cleans them up",
      min_instances=1, also=("C03",),
      clause="Segment ids are drawn by Segment._random_id() from a constant alphabet (followed through the helper it calls to the string "
             "handed to random.choice); TOC._segment_pattern(), which clean_files() uses to find the files of segments no TOC refers "
             "to, must match '<index>_<id>.<ext>' for an id made of every character of that alphabet, with the id captured whole. "
             "Two constants of two modules that have to agree: an id character outside the pattern's class leaves orphaned segment "
             "files behind for ever.")
def c02_r8(ctx):
    prog = ctx.prog
    rid = prog.method("codec.base.Segment", "_random_id", inherited=False)
    pat = prog.method("index.TOC", "_segment_pattern", inherited=False)
    ctx.saw(rid)
    ctx.saw(pat)
    # producer: the returned expression is a call to a project function that joins random.choice(<constant>) characters
    alphabet = None
    how = ""
    rets = [r.value for r in ast.walk(rid.node) if isinstance(r, ast.Return) and r.value is not None]
    if len(rets) == 1 and isinstance(rets[0], ast.Call):
        res = calls_of(prog).resolve(rid, rets[0])
        if res.kind == "exact" and len(res.targets) == 1:
            g = res.targets[0]
            ctx.saw(g)
            for c in norm.calls_in(g.node, include_nested_defs=True):
                if norm.call_name(c) == "choice" and len(c.args) == 1:
                    v = prog.fold_str(g.module, c.args[0], g.cls)
                    if isinstance(v, str) and v:
                        alphabet = v
                        how = "%s -> random.choice(%r)" % (g.short, v)
    if alphabet is None and len(rets) == 1:
        # the standard library's id sources, by their documented output alphabets
        t = norm.canon(rets[0])
        core = t
        if isinstance(rets[0], ast.Subscript):
            core = norm.canon(rets[0].value)
        if core.endswith("uuid4().hex") or core.endswith("uuid1().hex"):
            alphabet, how = "0123456789abcdef", "uuid .hex"
        elif core.startswith("str(") and ("uuid4()" in core or "uuid1()" in core):
            alphabet, how = "0123456789abcdef-", "str(uuid)"
    if alphabet is None:
        ctx.note("C02-R8: the alphabet of Segment._random_id() could not be read (%s); agreement with the clean-up pattern is not decided"
                 % [norm.canon(r) for r in rets])
        ctx.ob(rid, True, "segment id source: not readable, agreement with the clean-up pattern undecided")
        return
    ctx.ob(rid, True, "segment ids are drawn from a constant alphabet", detail=how)
    # consumer: the regular expression (a string constant with the index name substituted)
    fmt_ = None
    for c in norm.calls_in(pat.node):
        if norm.call_name(c) == "compile" and c.args and isinstance(c.args[0], ast.BinOp) and isinstance(c.args[0].op, ast.Mod):
            v = prog.fold_str(pat.module, c.args[0].left, pat.cls)
            if isinstance(v, str):
                fmt_ = v
    if fmt_ is None:
        raise AnalysisError("TOC._segment_pattern no longer compiles a constant format string")
    ok = False
    detail = "pattern %r" % fmt_
    if alphabet is not None:
        try:
            rx = re.compile(fmt_ % "IDX")
            name = "IDX_" + alphabet
            m = rx.match(name + ".seg")
            ok = m is not None and m.group(1) == name and all(
                (lambda mm, n_: mm is not None and mm.group(1) == n_)(rx.match("IDX_" + ch * 3 + ".pst"), "IDX_" + ch * 3) for ch in set(alphabet))
        except Exception as e:
            detail += " (%s)" % e
    ctx.ob("Segment._random_id <-> TOC._segment_pattern", ok, "every character a segment id can contain is inside the id class of the clean-up pattern",
           detail=detail + "; alphabet %r" % (alphabet,), loc=pat.loc)
    # ... and nothing else's name: index names may contain '_' (create_in(dir, indexname="docs_archive")), so the id class must
    # stop at the separator, or a commit to `docs` claims -- and clean_files deletes -- the live files of `docs_archive`
    if alphabet is not None:
        foreign = None
        try:
            rx = re.compile(fmt_ % "IDX")
            for sib in ("IDX_other_" + alphabet[:6] + ".seg", "IDX_2_" + alphabet[:6] + ".trm"):
                if rx.match(sib) is not None:
                    foreign = sib
        except Exception:
            pass
        ctx.ob("TOC._segment_pattern", foreign is None, "the clean-up pattern of an index does not match the files of an index whose name extends it",
               detail="" if foreign is None else "pattern %r for index IDX matches %r, a segment file of the index IDX_%s" %
               (fmt_, foreign, foreign.split("_")[1]), loc=pat.loc)


@rule("C02", "R12", "K3", "only a segment nobody can see yet is packed into a compound file",
      min_instances=1, also=("C03",),
      clause="Segment.create_compound_file() copies a segment's loose files into one .seg file and DELETES the loose files.  For the "
             "segment the writer is just finishing that is harmless: no TOC lists it yet.  Applied to a segment that a committed TOC "
             "lists (an element of a segment list, a merge policy's result) it removes files the last committed generation still "
             "needs, before the new TOC exists: a crash in between leaves an index that cannot be opened.  So outside the segment "
             "classes themselves every call's receiver is the writer's own new segment (self.newsegment / self.get_segment() / a "
             "local bound to one of them), never a loop variable or an element of a list.")
def c02_r12(ctx):
    prog = ctx.prog
    n = 0
    segbase = prog.cls("codec.base.Segment")
    segclasses = set(c.qualname for c in prog.subclasses(segbase, strict=False))
    for f in prog.functions.values():
        if f.cls is not None and f.cls.qualname in segclasses:
            continue        # delegation inside the segment classes (self._child.create_compound_file)
        for c in norm.calls_in(f.node):
            if norm.call_name(c) != "create_compound_file" or norm.receiver(c) is None:
                continue
            n += 1
            ctx.saw(f)
            r = norm.inline_defs(norm.receiver(c), f.node)
            t = norm.canon(r, norm.aliases(f.node))
            own = t in ("self.newsegment", "self.get_segment()")
            # a loop variable / comprehension variable / subscript is an element of a segment list
            loopvars = set()
            for lp in ast.walk(f.node):
                if isinstance(lp, (ast.For, ast.comprehension)):
                    loopvars |= norm.names_in(lp.target)
            elem = isinstance(r, ast.Subscript) or (isinstance(r, ast.Name) and r.id in loopvars)
            ctx.ob(f, own and not elem, "create_compound_file() is applied to the writer's own unpublished segment",
                   detail="" if own and not elem else "receiver `%s` is %s: its loose files are deleted while the committed TOC still lists them"
                   % (norm.canon(norm.receiver(c)), "an element of a segment list" if elem else "not the new segment"),
                   loc=ctx.nodeloc(f, c))
    if n < 1:
        raise AnalysisError("no call of create_compound_file left outside the segment classes")
