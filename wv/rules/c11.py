"""C11 -- every matcher is a faithful forward cursor over its result list.

C11 also runs C01-R1/R2/R5 and C09-R1 (registered there with also=("C11",)):
alignment and guarded reads are per-method obligations, hence independent of
the call sequence used to reach an entry.
"""

import ast

from ..report import rule
from .. import norm, cfg as cfgmod, guards, matchers as M
from ..model import AnalysisError, self_attr_assignments
from .common import reconstruction_check, calls_of, find_calls, returns_of, is_abstract_body, bind_args
from ..typestate import TypeState

CURSOR_API = ("is_active", "id", "next", "skip_to", "reset", "copy", "all_ids", "replace", "score",
              "supports", "spans")

# classes deliberately outside the cursor contract (one line of reason each)
NOT_A_CURSOR = {
    "matching.mcore.Matcher": "abstract base",
    "matching.mcore.LeafMatcher": "abstract base of codec leaf matchers",
    "matching.binary.BiMatcher": "abstract base",
    "matching.binary.AdditiveBiMatcher": "abstract base",
    "matching.wrappers.WrappingMatcher": "base class; only subclasses are returned by queries",
    "matching.combo.CombinationMatcher": "abstract base",
    "matching.mcore.ConstantScoreMatcher": "abstract mix-in, never instantiated",
    "query.spans.SpanWrappingMatcher": "abstract base (needs _get_spans)",
    "query.spans.SpanBiMatcher": "abstract base (needs _get_spans)",
}

READ_METHODS = ("score", "weight", "value", "value_as", "id", "next", "skip_to", "skip_to_quality", "term",
                "block_quality", "max_quality", "supports", "spans", "is_active", "all_ids", "matching_terms",
                "block_min_length", "block_max_length", "block_max_weight", "_find_next", "_get_spans",
                "_sqr", "_gather", "_find_next_children")


@rule("C11", "R1", "K10", "every matcher class a query can return implements the whole cursor interface",
      min_instances=20,
      clause="Every instantiated Matcher subclass resolves is_active, id, next, skip_to, reset, copy, all_ids, "
             "replace, score, supports and spans to a body that is not just `raise NotImplementedError`.")
def c11_r1(ctx):
    prog = ctx.prog
    inst = M.instantiated_classes(prog)
    for k in NOT_A_CURSOR:
        prog.cls(k)
    n = 0
    for cls in M.matcher_classes(prog):
        if cls.short in NOT_A_CURSOR:
            continue
        if cls.qualname not in inst and not any(s.qualname in inst for s in prog.subclasses(cls)):
            continue
        n += 1
        for m in CURSOR_API:
            if cls.short == "matching.mcore.NullMatcherClass" and m in ("id", "next", "score", "supports", "spans", "skip_to"):
                continue  # never active: per-entry reads are never legal on it
            f = prog.lookup(cls, m)
            ok = f is not None and not is_abstract_body(f)
            ctx.ob(cls, ok, "%s() is implemented" % m,
                   detail="resolves to %s, which only raises NotImplementedError" % f.short if f is not None and not ok else "",
                   loc=cls.loc)
    if n < 20:
        raise AnalysisError("only %d instantiated matcher classes found" % n)


def _kwargs_dict_keys(func, name):
    """Keys of a local dict `name` filled by name["k"] = ... assignments (for **name at a call)."""
    keys = set()
    for st in ast.walk(func.node):
        if isinstance(st, ast.Assign):
            for t in st.targets:
                if isinstance(t, ast.Subscript) and isinstance(t.value, ast.Name) and t.value.id == name \
                        and isinstance(t.slice, ast.Constant):
                    keys.add(t.slice.value)
    return keys


def _attr_of_param(prog, cls, param):
    """self attributes that __init__ (MRO-resolved) assigns directly from `param`."""
    init = prog.lookup(cls, "__init__")
    out = []
    if init is None:
        return out
    for st in ast.walk(init.node):
        if isinstance(st, ast.Assign) and isinstance(st.value, ast.Name) and st.value.id == param:
            for t in st.targets:
                if isinstance(t, ast.Attribute) and isinstance(t.value, ast.Name) and t.value.id == "self":
                    out.append(t.attr)
    return out


def _attr_read_in_cursor_methods(prog, cls, attr):
    for m in READ_METHODS:
        f = prog.lookup(cls, m)
        if f is None:
            continue
        for n in ast.walk(f.node):
            if isinstance(n, ast.Attribute) and n.attr == attr and isinstance(n.value, ast.Name) and n.value.id == "self" \
                    and isinstance(n.ctx, ast.Load):
                return f
    return None


CHILD_PATHS = ("self.a", "self.b", "self.child", "self.matchers", "self._matchers", "self.wanted_parent_matcher")


@rule("C11", "R2", "K6", "copy()/replace() rebuild a matcher with everything its cursor behaviour depends on",
      min_instances=15,
      clause="Every self.__class__(...) / Cls(...) in copy, _replacement and replace fits the target __init__ "
             "(checked per concrete subclass that inherits the method), passes child matchers as .copy() in "
             "copy(), and passes every constructor parameter whose attribute a cursor-visible method reads.")
def c11_r2(ctx):
    prog = ctx.prog
    inst = M.instantiated_classes(prog)
    seen = set()
    for cls in M.matcher_classes(prog):
        if cls.short in NOT_A_CURSOR:
            continue
        if cls.qualname not in inst and not any(s.qualname in inst for s in prog.subclasses(cls)):
            continue
        for m in ("copy", "_replacement", "replace"):
            f = prog.lookup(cls, m)
            if f is None or is_abstract_body(f):
                continue
            if m == "copy" and ("copy-args", f.qualname) not in seen:
                # whatever copy() calls to build the result (the constructor, a helper such as _replacement): a child matcher
                # handed over as an argument must be a .copy() of it, never the child itself (the two would share one cursor)
                seen.add(("copy-args", f.qualname))
                fal = norm.aliases(f.node)
                for call in norm.calls_in(f.node):
                    for a_ in list(call.args) + [k.value for k in call.keywords]:
                        t = norm.canon(a_, fal)
                        if t in CHILD_PATHS:
                            ctx.saw(f)
                            ctx.ob(f, False, "child %s is passed as a copy" % t,
                                   detail="%s hands the child itself to %s: the copy shares the child's cursor with the original" % (
                                       f.short, norm.canon(call.func)), loc=ctx.nodeloc(f, call))
            if m == "_replacement":
                rp = prog.lookup(cls, "replace")
                if rp is None or not any(norm.call_name(c) == "_replacement" for c in norm.calls_in(rp.node)):
                    continue  # this class's replace() never calls _replacement
            for call in norm.calls_in(f.node):
                fn = call.func
                target_cls = None
                if norm.canon(fn) == "self.__class__":
                    target_cls = cls
                elif isinstance(fn, (ast.Name, ast.Attribute)) and m != "replace":
                    r = prog.resolve_in_func(f, fn)
                    if r is not None and r[0] == "class" and prog.is_subclass(r[1], prog.cls(M.MATCHER_BASE)):
                        target_cls = r[1]
                if target_cls is None:
                    continue
                key = (f.qualname, target_cls.qualname, call.lineno, call.col_offset)
                if key in seen:
                    continue
                seen.add(key)
                ctx.saw(f)
                init = prog.lookup(target_cls, "__init__")
                if init is None:
                    continue
                construct = "%s -> %s(...)" % (f.short, target_cls.name)
                # resolve **kwargs built locally
                kwnames = set()
                call2 = call
                star = [k for k in call.keywords if k.arg is None]
                if star and isinstance(star[0].value, ast.Name):
                    kwnames = _kwargs_dict_keys(f, star[0].value.id)
                    call2 = ast.Call(func=call.func, args=call.args,
                                     keywords=[k for k in call.keywords if k.arg is not None] +
                                              [ast.keyword(arg=kn, value=ast.Name(id="<kw>", ctx=ast.Load())) for kn in sorted(kwnames)])
                mapping, probs = bind_args(call2, init)
                if mapping is None:
                    ctx.ob(construct, True, "call uses *args/**kwargs that cannot be bound statically", loc=ctx.nodeloc(f, call))
                    continue
                ctx.ob(construct, not probs, "call fits %s.__init__%s" % (target_cls.name, tuple(init.params[1:])),
                       detail="; ".join(probs) + " (TypeError at run time)" if probs else "", loc=ctx.nodeloc(f, call))
                # children passed by .copy() in copy()
                if m == "copy":
                    for p, a in mapping.items():
                        t = norm.canon(a)
                        if t in ("self.a", "self.b", "self.child"):
                            ctx.ob(construct, False, "child %s is passed as a copy" % t,
                                   detail="the copy shares the child's cursor with the original", loc=ctx.nodeloc(f, call))
                if probs:
                    continue
                # dropped parameters
                a = init.node.args
                params = [x.arg for x in a.args][1:]
                for p in params:
                    if p in mapping:
                        continue
                    for attr in _attr_of_param(prog, target_cls, p):
                        rf = _attr_read_in_cursor_methods(prog, target_cls, attr)
                        # restored afterwards?  m = Cls(...); m.attr = self.attr
                        restored = any(isinstance(st, ast.Assign) and any(isinstance(t, ast.Attribute) and t.attr == attr
                                                                          for t in st.targets)
                                       for st in ast.walk(f.node))
                        if rf is not None and not restored:
                            ctx.ob(construct, False, "constructor parameter %r is passed on" % p,
                                   detail="self.%s is read by %s but the rebuilt matcher gets the default" % (attr, rf.short),
                                   loc=ctx.nodeloc(f, call))
                        else:
                            ctx.ob(construct, True, "constructor parameter %r may be defaulted (self.%s %s)" % (
                                p, attr, "restored after construction" if restored else "is not read by cursor methods"),
                                   loc=ctx.nodeloc(f, call))


ADVANCING_HELPERS = ("_gather",)
CURRENT_ID_EXPRS = ("self.id()", "self._id", "self._docnum", "self._ids[self._i]", "self._nextchild",
                    "self.a.id()", "self._nextdoc", "self.child.id()")


@rule("C11", "R4", "K2", "skip_to(t) does not move a cursor that is already at or beyond t",
      min_instances=6,
      clause="Every skip_to override that writes its own cursor state (or calls a consuming helper) does so only "
             "after an early return under `t <= current id` (or `t < current id`); pure delegation to children is exempt.")
def c11_r4(ctx):
    prog = ctx.prog
    for cls in M.matcher_classes(prog):
        f = cls.methods.get("skip_to")
        if f is None or is_abstract_body(f):
            continue
        params = f.params[1:]
        if not params:
            continue
        t = params[0]
        al = norm.aliases(f.node)
        textfn = lambda e, _f=f, _al=al: norm.canon(norm.inline_defs(e, _f.node), _al)

        def stmt_event(func, n, _t=t):
            a = n.ast
            evs = []
            if n.kind == "stmt" and isinstance(a, (ast.Assign, ast.AugAssign)):
                tg = a.targets if isinstance(a, ast.Assign) else [a.target]
                if isinstance(a, ast.Assign) and isinstance(a.value, ast.Constant) and a.value.value is None:
                    tg = []  # clearing a cache (self._id = None) moves nothing
                for x in tg:
                    for y in (x.elts if isinstance(x, ast.Tuple) else [x]):
                        if isinstance(y, ast.Attribute) and isinstance(y.value, ast.Name) and y.value.id == "self":
                            evs.append("mut:self.%s = ..." % y.attr)
            for frag in cfgmod.node_exprs(n):
                for c in norm.calls_in(frag):
                    if norm.call_name(c) in ADVANCING_HELPERS and norm.canon(norm.receiver(c) or ast.Name(id="")) == "self":
                        evs.append("mut:self.%s()" % norm.call_name(c))
            return evs or None

        def edge_event(func, n, label, _t=t):
            if n.kind != "test":
                return None
            txt = textfn(n.ast)
            for cur in CURRENT_ID_EXPRS:
                if label[0] == "F" and txt in ("(%s < %s)" % (_t, cur), "(%s <= %s)" % (_t, cur)):
                    return "beyond"
                if label[0] == "T" and txt == "(%s < %s)" % (cur, _t):
                    return "beyond"
                # cursor known exhausted (no current id to compare with)
                if label[0] == "F" and txt == norm.canon(norm.parse_expr("%s is not None" % cur)):
                    return "beyond"
                if label[0] == "T" and txt == norm.canon(norm.parse_expr("%s is None" % cur)):
                    return "beyond"
            return None

        first_mut = {}

        def delta(state, ev):
            if state == "U" and isinstance(ev, str) and ev.startswith("mut:"):
                return "V:" + ev[4:]
            if state == "U" and ev == "beyond":
                return "G"
            return state

        ts = TypeState(prog, calls_of(prog), delta, lambda *a: None, stmt_event=stmt_event, edge_event=edge_event)
        ts.all_states = ("U", "G")
        exits = ts.run(f, cls, "U")
        if not any(stmt_event(f, n) for n in cfgmod.cfg_of(f).nodes):
            continue
        ctx.saw(f)
        bad = [(st, path) for st, path in exits.items() if st.startswith("V:")]
        ctx.ob(f, not bad, "own cursor state is written only after the early return for targets at or before the current id",
               detail="%s on a path without the guard" % bad[0][0][2:] if bad else "",
               path=cfgmod.path_text(bad[0][1]) if bad else None)


@rule("C11", "R5", "K4", "reset() restores every piece of cursor state that next()/skip_to() change",
      min_instances=3,
      clause="For leaf-like matchers with their own cursor attributes, the attributes written by next/skip_to/"
             "skip_to_quality (directly or through the block-navigation helpers) are all re-initialised by reset().")
def c11_r5(ctx):
    prog = ctx.prog

    def writes(cls, names, depth=0, seen=None):
        seen = seen if seen is not None else set()
        out = set()
        for nm in names:
            f = prog.lookup(cls, nm)
            if f is None or f.qualname in seen:
                continue
            seen.add(f.qualname)
            for st in ast.walk(f.node):
                tg = []
                if isinstance(st, ast.Assign):
                    tg = st.targets
                elif isinstance(st, ast.AugAssign):
                    tg = [st.target]
                for x in tg:
                    for y in (x.elts if isinstance(x, ast.Tuple) else [x]):
                        if isinstance(y, ast.Attribute) and isinstance(y.value, ast.Name) and y.value.id == "self":
                            out.add(y.attr)
            if depth < 3:
                callees = [norm.call_name(c) for c in norm.calls_in(f.node)
                           if isinstance(c.func, ast.Attribute) and norm.canon(c.func.value) == "self"]
                out |= writes(cls, [c for c in callees if c and c.startswith("_")], depth + 1, seen)
        return out

    def must_writes(cls, name, depth=0, stack=()):
        """self attributes assigned on every non-exceptional path of cls.name (callees on self included)."""
        f = prog.lookup(cls, name)
        if f is None or f.qualname in stack or depth > 3:
            return frozenset()
        g = cfgmod.cfg_of(f)

        def transfer(node, state):
            out = set(state)
            a = node.ast
            if node.kind == "stmt" and isinstance(a, (ast.Assign, ast.AugAssign)):
                tg = a.targets if isinstance(a, ast.Assign) else [a.target]
                for x in tg:
                    for y in (x.elts if isinstance(x, ast.Tuple) else [x]):
                        if isinstance(y, ast.Attribute) and isinstance(y.value, ast.Name) and y.value.id == "self":
                            out.add(y.attr)
            for frag in cfgmod.node_exprs(node):
                for c in norm.calls_in(frag):
                    if isinstance(c.func, ast.Attribute) and norm.canon(c.func.value) == "self":
                        out |= must_writes(cls, c.func.attr, depth + 1, stack + (f.qualname,))
            return frozenset(out)

        sin, sout = cfgmod.forward(g, frozenset(), transfer, include_exc=False)
        r = sin[g.exit.id]
        return r if r is not None else frozenset()

    for cname in ("codec.whoosh3.W3LeafMatcher", "matching.mcore.ListMatcher", "matching.wrappers.InverseMatcher",
                  "matching.wrappers.MultiMatcher"):
        cls = prog.cls(cname)
        moved = writes(cls, ["next", "skip_to", "skip_to_quality"])
        restored = must_writes(cls, "reset")
        missing = sorted(moved - restored)
        ctx.ob(cls, not missing, "reset() re-initialises, on every path, every attribute the cursor moves write",
               detail="written by next/skip_to*: %s; not (unconditionally) restored by reset(): %s" % (sorted(moved), missing) if missing else "",
               loc=cls.loc)


@rule("C11", "R6", "K9", "whole posting blocks are skipped only when the target lies strictly beyond them",
      min_instances=2, also=("C01", "C06", "C05"),
      clause="Every predicate handed to W3LeafMatcher._skip_to_block is `target id > block_max_id()` (strict: a block "
             "whose last id equals the target still contains it) or `block_quality() <= minquality` (a block that can "
             "only tie the threshold cannot beat it); _skip_to_block applies the predicate to the current block before "
             "every _next_block().")
def c11_r6(ctx):
    prog = ctx.prog
    cls = prog.cls("codec.whoosh3.W3LeafMatcher")
    n = 0

    def judge(f, body, where):
        al = norm.aliases(f.node)
        t = norm.canon(body, al) if body is not None else "?"
        params = f.params[1:]
        tgt = params[0] if params else "?"
        if "block_max_id" in t:
            ok = t == "(self.block_max_id() < %s)" % tgt
            want = "%s > block_max_id()" % tgt
        elif "block_quality" in t:
            ok = t == "(self.block_quality() <= %s)" % tgt
            want = "block_quality() <= %s" % tgt
        else:
            ok, want = False, "a comparison with block_max_id() or block_quality()"
        ctx.ob(f, ok, "blocks are skipped while %s" % want, detail="predicate: %s" % t, loc=ctx.nodeloc(f, where))
    for m, f in cls.methods.items():
        if m == "_skip_to_block":
            continue
        for c in norm.calls_in(f.node):
            if norm.call_name(c) != "_skip_to_block" or not c.args:
                continue
            n += 1
            ctx.saw(f)
            pred = c.args[0]
            body = pred.body if isinstance(pred, ast.Lambda) else None
            if body is None and isinstance(pred, ast.Name):
                # a nested def returning the test
                for d in ast.walk(f.node):
                    if isinstance(d, ast.FunctionDef) and d.name == pred.id and len(d.body) == 1 and isinstance(d.body[0], ast.Return):
                        body = d.body[0].value
            judge(f, body, c)
        # the same loop written out in place:  while self.is_active() and <predicate>: self._next_block()
        for w in ast.walk(f.node):
            if isinstance(w, ast.While) and any(norm.call_name(c_) == "_next_block" for s_ in w.body for c_ in norm.calls_in(s_)):
                conj = w.test.values if isinstance(w.test, ast.BoolOp) and isinstance(w.test.op, ast.And) else [w.test]
                preds = [x for x in conj if norm.canon(x) != "self.is_active()"]
                n += 1
                ctx.saw(f)
                if len(preds) == 1:
                    judge(f, preds[0], w)
                else:
                    ctx.ob(f, False, "a block-skipping loop has exactly one skipping predicate", detail=norm.canon(w.test), loc=ctx.nodeloc(f, w))
    sb = cls.methods.get("_skip_to_block")
    if sb is not None:
        loops = [w for w in ast.walk(sb.node) if isinstance(w, ast.While)]
        ok = len(loops) == 1 and any(norm.call_name(c_) == sb.params[1] for c_ in norm.calls_in(loops[0].test)) and \
            any(norm.call_name(c_) == "_next_block" for s_ in loops[0].body for c_ in norm.calls_in(s_))
        ctx.ob(sb, ok, "_skip_to_block tests the predicate before every _next_block()")
    if n < 2:
        raise AnalysisError("only %d block-skipping sites in W3LeafMatcher" % n)


@rule("C11", "R7", "K2", "MultiMatcher.skip_to re-tests the target after it moves on to the next segment's matcher",
      min_instances=1, also=("C01", "C12", "C05"),
      clause="In MultiMatcher.skip_to every normal exit follows either the current sub-matcher's own skip_to (whose "
             "postcondition is id() >= target or exhausted), or a failed `id > self.id()` / `self.current < len(matchers)` "
             "test -- never directly a switch to the next sub-matcher (_next_matcher()), which starts at that segment's "
             "FIRST posting; max_quality() ranges over the current and all later sub-matchers.")
def c11_r7(ctx):
    prog = ctx.prog
    cls = prog.cls("matching.wrappers.MultiMatcher")
    f = cls.methods["skip_to"]
    ctx.saw(f)
    tgt = f.params[1]

    def classify(func, call, res, concrete):
        nm = norm.call_name(call)
        if nm == "_next_matcher":
            return "switch"
        if nm == "skip_to" and call is not None and norm.receiver(call) is not None and norm.canon(norm.receiver(call)) != "self":
            return "subskip"
        return None

    def edge_event(func, node, label):
        if node.kind != "test":
            return None
        pol, e = guards.positive(label[0], node.ast)
        t = norm.canon(e, norm.aliases(func.node))
        if t == "(self.id() < %s)" % tgt and pol == "F":
            return "reached"
        if t in ("(self.current < len(self.matchers))",) and pol == "F":
            return "reached"
        return None

    def delta(state, ev):
        if ev == "switch":
            return "D"
        if ev in ("subskip", "reached"):
            return "C"
        return state
    ts = TypeState(prog, calls_of(prog), delta, classify, edge_event=edge_event, max_depth=0)
    ts.all_states = ("C", "D")
    exits = ts.run(f, cls, "C")
    bad = exits.get("D")
    ctx.ob(f, "C" in exits and bad is None, "no exit directly after switching to the next sub-matcher",
           detail="the matcher can rest on a posting of the next segment that lies before the target" if bad else "",
           path=cfgmod.path_text(bad) if bad else None)
    mq = cls.methods["max_quality"]
    rets = [norm.canon(r.value) for r in ast.walk(mq.node) if isinstance(r, ast.Return) and r.value is not None]
    ok = len(rets) == 1 and "self.matchers[self.current:]" in rets[0] and rets[0].startswith("max(") and "max_quality()" in rets[0]
    ctx.ob(mq, ok, "max_quality() is the maximum over the current and ALL later sub-matchers", detail=str(rets))


MRECON_OK = {
    # (function, constructor parameter): reason
}


@rule("C11", "R8", "K4", "a matcher re-created by copy()/replace() keeps every setting of the original",
      min_instances=20, also=("C09", "C01"),
      clause="Wherever a matcher class builds a new object of its own class (copy, replace, _replacement, ...), the call fits the "
             "constructor of every concrete class that inherits the method (and still reaches it) and binds every constructor "
             "parameter that carries state (boost, tiebreak, scale, missing, limit, ...).")
def c11_r8(ctx):
    prog = ctx.prog
    classes = M.matcher_classes(prog)
    n = reconstruction_check(ctx, prog, classes, MRECON_OK)
    if n < 20:
        raise AnalysisError("only %d matcher re-construction sites found" % n)


@rule("C11", "R9", "K10", "every attribute a matcher's cursor methods read is bound by the constructors that building it runs",
      min_instances=30, also=("C01", "C09"),
      clause="For every matcher class K: an attribute that only a base-class constructor binds, while K's own constructor chain "
             "(K.__init__, the base constructors it calls, the self-methods those call) never runs that constructor, is not read by "
             "any method reachable from K's public cursor methods -- else next()/score()/... raise AttributeError on a perfectly "
             "well-formed matcher.")
def c11_r9(ctx):
    from .common import undefined_attribute_reads, unbound_attribute_reads, constructed_names
    prog = ctx.prog
    n = 0
    for cls in M.matcher_classes(prog):
        n += 1
        bad = undefined_attribute_reads(prog, cls)
        # ... and attributes that nothing binds at all (no class in the hierarchy, no `obj.attr = ...` anywhere); a base class that is
        # never instantiated itself is judged through its subclasses
        if cls.name in constructed_names(prog) or not prog.subclasses(cls, strict=True):
            bad = bad + unbound_attribute_reads(prog, cls)
        by_attr = {}
        for attr, f, line, entry in bad:
            by_attr.setdefault(attr, []).append((f, line, entry))
        ctx.ob(cls, not bad, "every attribute read by %s's methods is bound when a %s is constructed" % (cls.name, cls.name),
               detail="; ".join("self.%s (read by %s)" % (a, ", ".join(sorted(set(x[0].name + "()" for x in v)))) for a, v in sorted(by_attr.items())) +
                      (": bound by no constructor that building a %s runs (or by nothing at all)" % cls.name if bad else ""), loc=cls.loc)
    if n < 30:
        raise AnalysisError("only %d matcher classes" % n)


def _pure_delegation(f, name):
    """the method only hands the call to the wrapped child: `return self.child.<name>(...)`"""
    body = [st for st in f.node.body if not _is_doc(st)]
    if len(body) != 1 or not isinstance(body[0], (ast.Return, ast.Expr)):
        return False
    v = body[0].value
    return isinstance(v, ast.Call) and isinstance(v.func, ast.Attribute) and v.func.attr == name \
        and norm.canon(v.func.value) == "self.child"


def _is_doc(st):
    return isinstance(st, ast.Expr) and isinstance(st.value, ast.Constant) and isinstance(st.value.value, str)


@rule("C11", "R10", "K10", "a wrapper that filters in its own next()/skip_to() does not inherit the child's unfiltered all_ids()",
      min_instances=12, also=("C01",),
      clause="For every wrapping matcher class K whose resolved all_ids() merely returns self.child.all_ids(): the resolved next() and "
             "skip_to() of K are pure delegations to the child as well. A wrapper that realigns after moving the child (span filters, "
             "id filters, inversion) and loses its own all_ids() override would hand out the ids of the unfiltered child through "
             "every access path that uses all_ids() (unscored search, docs_for_query, filters).")
def c11_r10(ctx):
    prog = ctx.prog
    W = prog.cls("matching.wrappers.WrappingMatcher")
    n = 0
    for K in prog.subclasses(W):
        ai = prog.lookup(K, "all_ids")
        if ai is None:
            raise AnalysisError("%s resolves no all_ids()" % K.qualname)
        n += 1
        if not _pure_delegation(ai, "all_ids"):
            ctx.ob(K, True, "all_ids() of %s is its own (%s), not the child's" % (K.name, ai.short))
            continue
        bad = []
        for m in ("next", "skip_to"):
            f = prog.lookup(K, m)
            if f is not None and not _pure_delegation(f, m):
                bad.append(f.short)
        ctx.ob(K, not bad, "%s hands out the child's all_ids() only because it moves exactly like the child" % K.name,
               detail=("all_ids() resolves to %s (the unfiltered ids of the child) although %s do(es) more than move the child"
                       % (ai.short, ", ".join(bad))) if bad else "", loc=K.loc)
    if n < 12:
        raise AnalysisError("only %d wrapping matcher classes" % n)


REPLACE_TABLES = {
    # class -> expected outcome per (a active, b active): "null", "a" (what remains is a's replacement), "b"
    "matching.binary.UnionMatcher": {(True, False): "a", (False, True): "b", (False, False): "null"},
    "matching.binary.DisjunctionMaxMatcher": {(True, False): "a", (False, True): "b", (False, False): "null"},
    "matching.binary.IntersectionMatcher": {(True, False): "null", (False, True): "null", (False, False): "null"},
    "matching.binary.AndNotMatcher": {(True, False): "a", (False, True): "null", (False, False): "null"},
    "matching.binary.AndMaybeMatcher": {(True, False): "a", (False, True): "null", (False, False): "null"},
}


@rule("C11", "R11", "K4", "replace() of a binary matcher with an exhausted side keeps exactly what the operator still matches",
      min_instances=5, also=("C01", "C05"),
      clause="replace(minquality) is evaluated case by case over (a active?, b active?) with no quality threshold: a disjunction "
             "(Union, DisjunctionMax) with one exhausted side continues as the other side and is empty only when both are; a "
             "conjunction is empty as soon as one side is; AndNot/AndMaybe are empty when the required side is and continue as that "
             "side when only the other one is exhausted. The table is computed from the code whatever its shape (early returns, "
             "cached activity flags, re-checks after the children were replaced).")
def c11_r11(ctx):
    from .. import cases
    prog = ctx.prog
    for cname, want in sorted(REPLACE_TABLES.items()):
        K = prog.cls(cname)
        f = K.methods.get("replace")
        if f is None:
            raise AnalysisError("%s.replace vanished" % cname)
        ctx.saw(f)
        got = {}
        for key in sorted(want):
            case = {"a": key[0], "b": key[1]}

            def absval(e, env, ev, case=case):
                if isinstance(e, ast.Call) and isinstance(e.func, ast.Attribute) and e.func.attr == "is_active" and not e.args:
                    r = cases.path_text(e.func.value, env).replace("self.", "")
                    if r in case:
                        return ("bool", case[r])
                if isinstance(e, ast.Call) and norm.call_name(e) in ("NullMatcher", "NullMatcherClass"):
                    return ("null",)
                if isinstance(e, ast.Constant):
                    return ("const", e.value)
                if cases.is_plain_path(e):
                    return ("path", cases.path_text(e, env))          # ("path", ...) lets path_text expand `pos = self.a`
                if isinstance(e, ast.Call) and isinstance(e.func, ast.Attribute) and e.func.attr == "replace":
                    return ("path", cases.path_text(e.func.value, env))
                return ("other", norm.canon(e)[:40])

            def decide(t, env, ev):
                if isinstance(t, ast.Name) and t.id in f.params[1:]:
                    return False        # no threshold
                v = ev.value(t, env)
                if v[0] == "bool":
                    return v[1]
                if v[0] == "const":
                    return bool(v[1])
                return None
            _, ret = cases.CaseEval(f.node, absval, decide).run({})
            if ret == ("null",):
                got[key] = "null"
            elif ret[0] == "path" and ret[1].replace("self.", "") in ("a", "b"):
                got[key] = ret[1].replace("self.", "")
            else:
                got[key] = str(ret)
        for key in sorted(want):
            ctx.ob(f, got[key] == want[key], "%s.replace() with a %s, b %s -> %s" % (
                K.name, "active" if key[0] else "exhausted", "active" if key[1] else "exhausted",
                {"null": "nothing", "a": "a's replacement", "b": "b's replacement"}[want[key]]),
                detail="computed: %s" % got[key] if got[key] != want[key] else "")


@rule("C11", "R12", "K2", "a private alignment helper reads a sub-matcher's id() only where the sub-matcher is known to be active",
      min_instances=3, also=("C01",),
      clause="id() of an exhausted matcher is undefined (ListMatcher raises IndexError, a leaf returns the last block's garbage). "
             "In whoosh/matching/binary.py every `<sub>.id()` inside a private helper (_find_next, _find_first, ...) is reached "
             "only with `<sub>.is_active()` known true -- from a test in the helper itself or, failing that, at every call site of "
             "the helper in the class.  Public methods are not judged here: their callers own that contract (C11-R1..R3).")
def c11_r12(ctx):
    prog = ctx.prog
    mod = prog.module("matching.binary")
    n = 0
    for c in sorted(prog.classes.values(), key=lambda k: k.qualname):
        if c.module is not mod:
            continue
        # what `self.is_active()` being true tells about the parts: the conjuncts of the class's one-line is_active()
        implied = set()
        ia = prog.lookup(c, "is_active")
        if ia is not None:
            rs = [r for r in returns_of(ia) if r.value is not None]
            if len(rs) == 1:
                implied = set(norm.canon(a_) for pol_, a_ in guards.atoms(rs[0].value, "T") if pol_ == "T")

        def known(alt, want):
            return want in alt or (("T", "self.is_active()") in alt and want[1] in implied)
        for f in c.methods.values():
            if not f.name.startswith("_") or f.name.startswith("__"):
                continue
            fa = None
            al = norm.aliases(f.node)
            for x in norm.calls_in(f.node):
                if not (isinstance(x.func, ast.Attribute) and x.func.attr == "id" and not x.args):
                    continue
                recv = norm.canon(x.func.value, al)
                if recv not in ("self.a", "self.b"):
                    continue
                if fa is None:
                    fa = guards.Facts(f, textfn=lambda e: norm.canon(e, al))
                n += 1
                ctx.saw(f)
                want = ("T", "%s.is_active()" % recv)
                node = fa.node_of(x)
                alts = fa.alternatives(node) if node is not None else None
                ok = bool(alts) and all(known(a_, want) for a_ in alts)
                where = "in the helper"
                detail = ""
                if not ok:
                    # every call site of the helper in the hierarchy must know it
                    sites = []
                    for k in [c] + list(prog.subclasses(c, strict=True)):
                        for g in k.methods.values():
                            if g is f:
                                continue
                            for cc in norm.calls_in(g.node):
                                if norm.canon(cc.func) == "self.%s" % f.name:
                                    sites.append((g, cc))
                    ok = bool(sites)
                    where = "at its %d call sites" % len(sites)
                    for g, cc in sites:
                        fg = guards.Facts(g)
                        nd = fg.node_of(cc)
                        alts_g = fg.alternatives(nd) if nd is not None else None
                        if not alts_g or not all(known(a_, want) for a_ in alts_g):
                            ok = False
                            detail = "%s calls self.%s() without knowing %s: %s.id() of an exhausted matcher (IndexError on a " \
                                     "list matcher)" % (g.short, f.name, want[1], recv)
                ctx.ob(f, ok, "%s.id() is read with %s known active (%s)" % (recv, recv, "helper or callers"), detail=detail,
                       loc=ctx.nodeloc(f, x))
    if n == 0:
        raise AnalysisError("no private alignment helper of matching.binary reads a sub-matcher id")


_MOVES = ("next", "skip_to", "skip_to_quality")


@rule("C11", "R13", "K4", "reset() rewinds every sub-matcher the cursor moves advance",
      min_instances=5,
      clause="A composite matcher's next()/skip_to()/skip_to_quality() (and the private helpers they call on self) advance its "
             "sub-matchers; reset() promises the state of a freshly built matcher, so it must call reset() on each of them -- "
             "`self.x.reset()` for a sub-matcher held in an attribute, a loop `for m in self.xs: m.reset()` for a list.  A "
             "sub-matcher left where it was (the prohibited side of AndNot: _find_first() only ever moves it forward) makes every "
             "document before its stale position look unexcluded.")
def c11_r13(ctx):
    prog = ctx.prog
    base = prog.cls("matching.mcore.Matcher")
    n = 0

    def base_attr(e, al):
        e = norm.substitute(e, al) if al else e
        while isinstance(e, ast.Subscript):
            e = e.value
        t = norm.canon(e)
        return t[5:] if t.startswith("self.") and t.count(".") == 1 else None

    def children(cls, names, want, depth=0, seen=None):
        seen = seen if seen is not None else set()
        out = set()
        for nm in names:
            f = prog.lookup(cls, nm)
            if f is None or f.qualname in seen:
                continue
            seen.add(f.qualname)
            al = norm.aliases(f.node)
            loopmap = {}
            for lp in ast.walk(f.node):
                if isinstance(lp, (ast.For, ast.comprehension)) and isinstance(lp.target, ast.Name):
                    b = base_attr(lp.iter, al)
                    if b:
                        loopmap[lp.target.id] = b
            for c in norm.calls_in(f.node):
                if not isinstance(c.func, ast.Attribute):
                    continue
                is_super = isinstance(c.func.value, ast.Call) and norm.call_name(c.func.value) == "super"
                explicit_base = isinstance(c.func.value, ast.Name) and c.func.value.id[:1].isupper() and c.args and \
                    isinstance(c.args[0], ast.Name) and c.args[0].id == "self"
                if depth < 3 and (is_super or explicit_base) and c.func.attr == nm:
                    # super().reset() / BiMatcher.reset(self): the base class's method does (part of) the work
                    for b_ in prog.mro(cls)[1:]:
                        if hasattr(b_, "methods") and c.func.attr in b_.methods and (is_super or b_.name == c.func.value.id):
                            sub = set(seen)
                            sub.discard(b_.methods[c.func.attr].qualname)
                            out |= children(b_, [c.func.attr], want, depth + 1, sub)
                            break
                elif c.func.attr in want:
                    r = c.func.value
                    if isinstance(r, ast.Name) and r.id in loopmap:
                        out.add(loopmap[r.id])
                    else:
                        r2 = norm.inline_defs(r, f.node) if isinstance(r, ast.Name) else r
                        b = base_attr(r2, al)
                        if b:
                            out.add(b)
                elif depth < 3 and norm.canon(c.func.value) == "self" and (c.func.attr.startswith("_") or c.func.attr in want):
                    out |= children(cls, [c.func.attr], want, depth + 1, seen)
        return out

    for cls in prog.subclasses(base, strict=True):
        if not any(m in cls.methods for m in _MOVES + ("reset",)):
            continue
        rs = prog.lookup(cls, "reset")
        if rs is None or is_abstract_body(rs):
            continue
        moved = children(cls, list(_MOVES), _MOVES)
        if not moved:
            continue
        n += 1
        ctx.saw(rs)
        rewound = children(cls, ["reset"], ("reset",))
        # a sub-matcher that the constructor also hands to another sub-matcher it builds (RequireMatcher: self.a = a;
        # WrappingMatcher.__init__(self, IntersectionMatcher(a, b))) is rewound by that one's reset()
        init = prog.lookup(cls, "__init__")
        if init is not None and rewound:
            held = {}
            for st in ast.walk(init.node):
                if isinstance(st, ast.Assign) and len(st.targets) == 1 and isinstance(st.value, ast.Name) and st.value.id in init.params:
                    b = base_attr(st.targets[0], None)
                    if b:
                        held[st.value.id] = b
            for c in norm.calls_in(init.node):
                for a_ in c.args:
                    if isinstance(a_, ast.Call) and isinstance(a_.func, (ast.Name, ast.Attribute)) and norm.call_name(a_)[:1].isupper():
                        for aa in a_.args:
                            if isinstance(aa, ast.Name) and aa.id in held:
                                rewound = rewound | {held[aa.id]}
        missing = sorted(moved - rewound)
        ctx.ob(cls, not missing, "reset() calls reset() on every sub-matcher that next()/skip_to()/skip_to_quality() advance",
               detail=("advanced: %s; rewound by reset(): %s; left where they were: %s" % (sorted(moved), sorted(rewound), missing)) if missing else "",
               loc=rs.loc)
    if n < 5:
        raise AnalysisError("only %d composite matchers with sub-matcher moves found" % n)


@rule("C11", "R14", "K1", "the segment cursor of a MultiMatcher only rests on an active sub-matcher",
      min_instances=2, also=("C01", "C06"),
      clause="MultiMatcher.is_active() is `self.current < len(self.matchers)` and id()/score()/... read matchers[self.current] "
             "without a test, so between calls self.current must be the index of an ACTIVE sub-matcher or len(matchers).  Only "
             "_next_matcher() establishes that (it steps over sub-matchers that are exhausted or were empty from the start: a "
             "segment whose postings for the term are all deleted).  Every other write of self.current is therefore followed, on "
             "every path to the method's exit, by self._next_matcher().")
def c11_r14(ctx):
    prog = ctx.prog
    cls = prog.cls("matching.wrappers.MultiMatcher")
    nm = cls.methods.get("_next_matcher")
    if nm is None:
        raise AnalysisError("MultiMatcher._next_matcher not found")
    n = 0
    for name, f in sorted(cls.methods.items()):
        if f is nm:
            continue
        g = cfgmod.cfg_of(f, exc_edges=False)

        def wr(nd):
            a = nd.ast
            if nd.kind != "stmt" or not isinstance(a, (ast.Assign, ast.AugAssign)):
                return False
            tg = a.targets if isinstance(a, ast.Assign) else [a.target]
            return any(norm.canon(y) == "self.current" for x in tg for y in (x.elts if isinstance(x, ast.Tuple) else [x]))

        if not any(wr(nd) for nd in g.nodes):
            continue
        n += 1
        ctx.saw(f)

        def transfer(nd, st):
            if wr(nd):
                return frozenset([nd.id])
            for frag in cfgmod.node_exprs(nd):
                for c in norm.calls_in(frag):
                    if norm.canon(c.func) == "self._next_matcher":
                        return frozenset()
            return st
        sin, _ = cfgmod.forward(g, frozenset(), transfer, meet=lambda a, b: a | b, include_exc=False)
        dirty = sin[g.exit.id] or frozenset()
        lines = sorted(getattr(g.nodes[i].ast, "lineno", 0) for i in dirty)
        ctx.ob(f, not dirty, "every write of self.current is followed by self._next_matcher() before the method returns",
               detail="self.current written at line %s reaches the exit without _next_matcher(): the cursor may rest on an exhausted or "
                      "empty sub-matcher, is_active() stays True and id() raises" % lines if dirty else "", loc=f.loc)
    if n < 2:
        raise AnalysisError("MultiMatcher: fewer than two methods write self.current outside _next_matcher")
