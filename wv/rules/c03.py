"""C03 -- readers are snapshots; new readers / refresh() see exactly the last commit."""

import ast

from ..report import rule
from .. import norm, cfg as cfgmod, guards
from ..model import AnalysisError
from .common import bound_arg, find_calls, bind_args, returns_of


@rule("C03", "R1", "K11", "the reader's segment list is exactly the TOC's: nothing flows from `reuse` into it",
      min_instances=2,
      clause="In FileIndex._reader the collection the SegmentReaders are built from derives only from "
             "the `segments` parameter (the reuse parameter may only feed the table of recyclable readers); "
             "FileIndex.reader passes schema/segments/generation of one and the same TOC read.")
def c03_r1(ctx):
    prog = ctx.prog
    f = prog.method("index.FileIndex", "_reader", inherited=False)
    ctx.saw(f)
    if "segments" not in f.params or "reuse" not in f.params:
        raise AnalysisError("FileIndex._reader signature changed: %s" % f.params)
    # every statement that changes the `segments` list / rebinding of it
    found = 0
    for st in ast.walk(f.node):
        val = None
        if isinstance(st, ast.Expr) and isinstance(st.value, ast.Call):
            c = st.value
            r = norm.receiver(c)
            if isinstance(r, ast.Name) and r.id == "segments" and norm.call_name(c) in (
                    "extend", "append", "insert", "remove", "pop", "sort", "reverse", "clear", "__iadd__"):
                val = c
        elif isinstance(st, ast.AugAssign) and isinstance(st.target, ast.Name) and st.target.id == "segments":
            val = st.value
        elif isinstance(st, ast.Assign) and any(isinstance(t, ast.Name) and t.id == "segments" for t in st.targets):
            val = st.value
        if val is None:
            continue
        found += 1
        uses_reuse = "reuse" in norm.names_in(val)
        how = norm.call_name(val) if isinstance(val, ast.Call) and val is getattr(st, "value", None) and isinstance(st, ast.Expr) else "assignment"
        ctx.ob(f, not uses_reuse, "the `segments` argument is changed by %s without consulting `reuse`" % how,
               detail="segments that the new TOC does not list are carried over from the old reader "
                      "(merged-away segments are resurrected by refresh())" if uses_reuse else "",
               loc=ctx.nodeloc(f, st))
    # what is iterated to build readers must be `segments`
    iters = []
    for n in ast.walk(f.node):
        if isinstance(n, ast.comprehension) and any(norm.call_name(c) == "segreader" for c in norm.calls_in(n) or []) is False:
            pass
    openers = set(n.name for n in ast.walk(f.node) if isinstance(n, ast.FunctionDef) and n is not f.node and
                  any(norm.call_name(c) == "SegmentReader" for c in norm.calls_in(n))) | {"SegmentReader"}
    # ... and the methods of the same class that open one (the closure turned into a method)
    opener_methods = [h for h in (f.cls.methods.values() if f.cls is not None else []) if h is not f and
                      any(norm.call_name(c) == "SegmentReader" for c in norm.calls_in(h.node)) and
                      any(norm.call_name(c) == h.name for c in norm.calls_in(f.node))]
    openers |= set(h.name for h in opener_methods)
    for n in ast.walk(f.node):
        if isinstance(n, (ast.ListComp, ast.GeneratorExp)):
            if any(norm.call_name(c) in openers for c in norm.calls_in(n.elt)):
                iters.append(norm.canon(n.generators[0].iter))
    for c in norm.calls_in(f.node, include_nested_defs=False):
        if norm.call_name(c) in openers and c.args:
            a = c.args[0]
            if isinstance(a, ast.Subscript):
                iters.append(norm.canon(a.value))
    # ... or a plain loop whose body opens a reader for the loop variable
    for lp in ast.walk(f.node):
        if isinstance(lp, ast.For) and isinstance(lp.target, ast.Name):
            for c in norm.calls_in(lp):
                if norm.call_name(c) in openers and any(isinstance(a, ast.Name) and a.id == lp.target.id for a in c.args):
                    iters.append(norm.canon(lp.iter))
    ctx.ob(f, bool(iters) and all(i == "segments" for i in iters),
           "SegmentReaders are built by iterating the `segments` parameter",
           detail="iterated: %s" % iters)
    # generation passed on to both reader kinds
    gens = []
    for c in norm.calls_in(f.node, include_nested_defs=True):
        if norm.call_name(c) in ("SegmentReader", "MultiReader"):
            g_ = bound_arg(prog, f, c, "generation")
            gens.append((norm.call_name(c), norm.canon(g_) if g_ is not None else None))
    for h in opener_methods:
        # the method receives the generation from _reader and hands it to the reader it opens
        hc = [c for c in norm.calls_in(f.node) if norm.call_name(c) == h.name]
        passed = all((lambda m_: m_ is not None and "generation" in m_ and norm.canon(m_["generation"]) == "generation")(
            bind_args(c, h, skip_self=not any(d_ == "staticmethod" for d_ in h.decorators))[0]) for c in hc)
        for c in norm.calls_in(h.node):
            if norm.call_name(c) == "SegmentReader":
                g_ = bound_arg(prog, h, c, "generation")
                gens.append(("SegmentReader", norm.canon(g_) if g_ is not None and passed else None))
    ctx.ob(f, len(gens) >= 2 and all(g == "generation" for _, g in gens),
           "the TOC generation is handed to every reader constructed", detail=str(gens))
    # FileIndex.reader: one TOC read feeds all three arguments
    r = prog.method("index.FileIndex", "reader", inherited=False)
    ctx.saw(r)
    calls = find_calls(r, "_reader")
    ok = False
    detail = ""
    if len(calls) == 1:
        m, probs = bind_args(calls[0], f)
        if m:
            vals = {k: norm.deep_canon(v, r.node) for k, v in m.items()}
            detail = str(vals)
            base = "self._read_toc()"
            ok = (vals.get("schema") == base + ".schema" and vals.get("segments") == base + ".segments"
                  and vals.get("generation") == base + ".generation" and vals.get("storage") == "self.storage"
                  and not probs)
            # and it is literally the same local (one read, not three)
            srcs = set()
            for k in ("schema", "segments", "generation"):
                e = m.get(k)
                if isinstance(e, ast.Attribute) and isinstance(e.value, ast.Name):
                    srcs.add(e.value.id)
            ok = ok and len(srcs) == 1
    ctx.ob(r, ok, "_reader(...) receives schema, segments and generation of one TOC read", detail=detail)


def _getter_inline(prog, text):
    """`self.reader()` is the trivial getter of `self.ixreader` (checked)."""
    g = prog.method("searching.Searcher", "reader", inherited=False)
    rets = returns_of(g)
    if len(rets) == 1 and norm.canon(rets[0].value) == "self.ixreader":
        return text.replace("self.reader()", "self.ixreader")
    return text


@rule("C03", "R2", "K4", "one definition of 'current': up_to_date and refresh compare latest generation == reader generation",
      min_instances=5,
      clause="Searcher.up_to_date returns, and Searcher.refresh returns self only under, "
             "`self._ix.latest_generation() == <reader>.generation()`; otherwise refresh builds a reader from "
             "the index; readers report the generation they were constructed with; latest_generation is the "
             "maximum generation among TOC files.")
def c03_r2(ctx):
    prog = ctx.prog
    want = "(self._ix.latest_generation() == self.ixreader.generation())"
    u = prog.method("searching.Searcher", "up_to_date", inherited=False)
    ctx.saw(u)
    rets = [r for r in returns_of(u) if r.value is not None]
    got = [_getter_inline(prog, norm.deep_canon(r.value, u.node)) for r in rets]
    ctx.ob(u, got == [want], "returns latest_generation() == reader generation", detail=str(got))
    rf = prog.method("searching.Searcher", "refresh", inherited=False)
    ctx.saw(rf)
    # refresh() may ask up_to_date() instead of repeating the comparison: the call then stands for what up_to_date() returns
    # (decided just above)
    same_def = got == [want]

    def _rf_text(e):
        t = _getter_inline(prog, norm.deep_canon(e, rf.node))
        return t.replace("self.up_to_date()", want) if same_def else t
    fa = guards.Facts(rf, textfn=_rf_text)
    g = fa.g
    ret_self = [n for n in g.nodes if n.kind == "return" and isinstance(n.ast.value, ast.Name) and n.ast.value.id == "self"]
    ok = bool(ret_self) and all(fa.holds(n, "T", want) for n in ret_self)
    ctx.ob(rf, ok, "`return self` only when latest_generation() == reader generation",
           detail="facts: %s" % [sorted(fa.at(n) or []) for n in ret_self])
    newreader = [n for n in g.nodes if n.kind in ("stmt", "return") and
                 any(norm.call_name(c) == "reader" and "_ix" in norm.deep_canon(norm.receiver(c), rf.node)
                     for c in norm.calls_in(n.ast))]
    ok = bool(newreader) and all(fa.holds(n, "F", want) for n in newreader)
    ctx.ob(rf, ok, "a stale searcher obtains a new reader from the index (self._ix.reader(...))")
    # the refreshed searcher is built on that new reader
    rets = [r for r in returns_of(rf) if r.value is not None and isinstance(r.value, ast.Call)]
    ok = False
    for r in rets:
        if r.value.args:
            a0 = norm.deep_canon(r.value.args[0], rf.node)
            ok = ok or a0.startswith("self._ix.reader(")
    ctx.ob(rf, ok, "the returned searcher wraps the newly obtained reader")
    # readers report the generation they were given
    for cname in ("reading.SegmentReader", "reading.MultiReader"):
        init = prog.method(cname, "__init__", inherited=False)
        gen = prog.method(cname, "generation", inherited=False)
        ctx.saw(gen)
        rets = [norm.canon(r.value) for r in returns_of(gen) if r.value is not None]
        attr = rets[0] if len(rets) == 1 else None
        assigned = False
        for st in ast.walk(init.node):
            if isinstance(st, ast.Assign) and attr and any(norm.canon(t) == attr for t in st.targets) \
                    and norm.canon(st.value) == "generation":
                assigned = True
        ctx.ob(gen, attr is not None and attr.startswith("self.") and assigned,
               "generation() returns the attribute __init__ set from its `generation` argument",
               detail="returns %s" % rets)
    # latest_generation = max over matching TOC files
    lg = prog.method("index.TOC", "_latest_generation", inherited=False)
    ctx.saw(lg)
    text = norm.stmt_text(lg.node)
    maxes = [c for c in norm.calls_in(lg.node) if norm.call_name(c) == "max"]
    has_max = bool(maxes)
    for c in maxes:
        # the maximum must be taken over integers, not over the matched digit strings
        numeric = False
        for a in c.args:
            t = norm.deep_canon(a, lg.node)
            if "int(" in t:
                numeric = True
        has_max = has_max and numeric
    loops_storage = any(isinstance(n, (ast.For, ast.comprehension)) and norm.canon(n.iter) in ("storage", "storage.list()") for n in ast.walk(lg.node))
    ctx.ob(lg, has_max and loops_storage, "latest generation is the numeric maximum (max over int(...)) of the generations of the storage's TOC files")
    fl = prog.method("index.FileIndex", "latest_generation", inherited=False)
    rets = [norm.canon(r.value) for r in returns_of(fl) if r.value is not None]
    ctx.ob(fl, rets == ["TOC._latest_generation(self.storage, self.indexname)"],
           "FileIndex.latest_generation asks the TOC scan of its own storage/indexname", detail=str(rets))
    # TOC.read without an explicit generation uses the same scan
    rd = prog.method("index.TOC", "read", inherited=False)
    ok = False
    for st in ast.walk(rd.node):
        if isinstance(st, ast.Assign) and norm.canon(st.targets[0]) == "gen" and \
                norm.canon(st.value) == "cls._latest_generation(storage, indexname)":
            ok = True
    ctx.ob(rd, ok, "TOC.read(gen=None) reads the latest generation found by the same scan")


@rule("C03", "R3", "K2", "opening a reader retries from the TOC read when a file vanished underneath it",
      min_instances=1,
      clause="In FileIndex.reader the TOC read and the reader construction are inside a retry loop whose "
             "IOError handler re-enters the loop a bounded number of times and finally re-raises.")
def c03_r3(ctx):
    prog = ctx.prog
    r = prog.method("index.FileIndex", "reader", inherited=False)
    ctx.saw(r)
    loops = [n for n in ast.walk(r.node) if isinstance(n, (ast.While, ast.For))]
    ok_inside = False
    ok_handler = False
    ok_reraise = False
    for lp in loops:
        for t in ast.walk(lp):
            if not isinstance(t, ast.Try):
                continue
            body_calls = [norm.call_name(c) for s in t.body for c in norm.calls_in(s)]
            if "_read_toc" in body_calls and "_reader" in body_calls:
                ok_inside = True
                for h in t.handlers:
                    names = []
                    if h.type is None:
                        names = ["*"]
                    elif isinstance(h.type, ast.Tuple):
                        names = [norm.canon(e) for e in h.type.elts]
                    else:
                        names = [norm.canon(h.type)]
                    if any(n in ("IOError", "OSError", "EnvironmentError", "Exception", "*") for n in names):
                        ok_handler = True
                        # handler must not unconditionally leave the loop, and must re-raise eventually
                        has_raise = any(isinstance(x, ast.Raise) for x in ast.walk(h))
                        uncond_exit = any(isinstance(x, (ast.Return, ast.Break, ast.Raise)) for x in h.body)
                        ok_reraise = has_raise and not uncond_exit
    ctx.ob(r, ok_inside, "TOC read and reader construction both sit inside the retry loop's try body")
    ctx.ob(r, ok_handler, "the handler catches the file-vanished error (IOError/OSError)")
    ctx.ob(r, ok_reraise, "the handler retries (no unconditional exit) and re-raises when retries are exhausted")


IOERR = ("IOError", "OSError", "EnvironmentError", "FileNotFoundError")


def _is_ioerror_class(prog, func, expr):
    """Does `raise <expr>` raise an IOError-compatible exception? (None = unknown)"""
    e = expr.func if isinstance(expr, ast.Call) else expr
    if isinstance(e, ast.Name) and e.id in IOERR:
        return True
    r = prog.resolve_in_func(func, e) if isinstance(e, (ast.Name, ast.Attribute)) else None
    if r is None:
        return None
    if r[0] == "class":
        return any(isinstance(k, str) and k.split(".")[-1] in IOERR for k in prog.mro(r[1]))
    if r[0] == "external":
        return r[1].split(".")[-1] in IOERR
    return None


@rule("C03", "R6", "K7", "a vanished file surfaces as IOError on the reader-open path (what the retry loop catches)",
      min_instances=1,
      clause="No function reachable from SegmentReader construction catches IOError/OSError (or everything) "
             "and raises a different, non-IOError exception instead: FileIndex.reader() only retries on IOError.")
def c03_r6(ctx):
    from .common import calls_of
    prog = ctx.prog
    calls = calls_of(prog)
    roots = [prog.method("reading.SegmentReader", "__init__", inherited=False),
             prog.method("reading.MultiReader", "__init__", inherited=False)]

    def byname_ok(name):
        from ..calls import GENERIC_METHODS
        return name not in GENERIC_METHODS and len(prog.methods_named(name)) <= 8

    reach = calls.reach(roots, byname_ok=byname_ok, max_depth=5)
    n = 0
    for q, (f, parent, call, depth) in sorted(reach.items()):
        if f.module.name.startswith(("whoosh.lang", "whoosh.support", "whoosh.analysis")):
            continue
        n += 1
        ctx.saw(f)
        for t in ast.walk(f.node):
            if not isinstance(t, ast.Try):
                continue
            for h in t.handlers:
                names = ["*"] if h.type is None else (
                    [norm.canon(e) for e in h.type.elts] if isinstance(h.type, ast.Tuple) else [norm.canon(h.type)])
                if not any(x.split(".")[-1] in IOERR + ("Exception", "BaseException", "*") for x in names):
                    continue
                for x in ast.walk(h):
                    if isinstance(x, ast.Raise) and x.exc is not None:
                        # re-raising the caught object is fine
                        if isinstance(x.exc, ast.Name) and (x.exc.id == h.name or x.exc.id == "e"):
                            continue
                        ok = _is_ioerror_class(prog, f, x.exc)
                        ctx.ob(f, ok is not False, "except %s: raise %s" % ("/".join(names), norm.canon(x.exc)),
                               detail="IOError converted into a non-IOError exception; FileIndex.reader's retry "
                                      "no longer recovers (reached via %s)" % " > ".join(calls.chain(reach, q)[-3:]),
                               loc=ctx.nodeloc(f, x))
    ctx.ob("reader-open path", n >= 5, "functions reachable from reader construction scanned for IOError conversion",
           detail="%d functions" % n, loc="src/whoosh/reading.py")


READ_SIDE_MODULES = ("whoosh.reading", "whoosh.searching", "whoosh.collectors", "whoosh.sorting",
                     "whoosh.highlight", "whoosh.scoring", "whoosh.classify", "whoosh.idsets",
                     "whoosh.columns")
READ_SIDE_PREFIXES = ("whoosh.matching.", "whoosh.query.", "whoosh.qparser.", "whoosh.automata.",
                      "whoosh.analysis.")
# read-side-module functions that legitimately write (one line of reason each)
READ_SIDE_EXEMPT = {
    "sorting.add_sortable": "writer-side utility living in sorting.py: takes an IndexWriter and adds a column "
                            "file to its segments inside that writer's locked transaction",
}
MUTATORS = ("create_file", "delete_file", "rename_file", "clean_files", "destroy", "clean",
            "create_compound_file")


@rule("C03", "R4", "K3", "segments are write-once: nothing on the read side creates, deletes or renames index files",
      min_instances=1,
      clause="No function in the reader/searcher/matcher/query/collector modules, nor any *Reader/*Matcher/"
             "*Cursor class of a codec, calls a storage-mutating operation.")
def c03_r4(ctx):
    prog = ctx.prog
    n_funcs = 0
    for k in READ_SIDE_EXEMPT:
        prog.func(k)
    for f in prog.functions.values():
        mod = f.module.name
        read_side = mod in READ_SIDE_MODULES or mod.startswith(READ_SIDE_PREFIXES)
        if not read_side and mod.startswith("whoosh.codec.") and f.cls is not None:
            nm = f.cls.name
            read_side = nm.endswith(("Reader", "Matcher", "Cursor")) and not nm.endswith("Writer")
        if not read_side or f.short in READ_SIDE_EXEMPT:
            continue
        n_funcs += 1
        for c in norm.calls_in(f.node, include_nested_defs=True):
            n = norm.call_name(c)
            if n in MUTATORS and isinstance(c.func, ast.Attribute):
                recv = norm.canon(norm.receiver(c))
                # `clean`/`destroy` on non-storage receivers (schema.clean()) are not file effects
                if n in ("clean", "destroy") and "stor" not in recv.lower():
                    continue
                ctx.ob(f, False, "%s.%s(...)" % (recv, n),
                       detail="storage mutation on the read side", loc=ctx.nodeloc(f, c))
            if n in ("remove", "rename", "unlink", "rmdir") and isinstance(c.func, ast.Attribute) and \
                    isinstance(c.func.value, ast.Name) and c.func.value.id == "os":
                ctx.ob(f, False, "os.%s(...)" % n, detail="raw file-system mutation on the read side",
                       loc=ctx.nodeloc(f, c))
    ctx.ob("read-side modules", n_funcs > 800, "read-side functions scanned for storage mutation",
           detail="%d functions" % n_funcs, loc="src/whoosh")
    # positive control: the scanner recognises a mutation when it sees one
    sample = ast.parse("def f(self):\n    self._storage.delete_file('x')\n").body[0]
    hit = [c for c in norm.calls_in(sample) if norm.call_name(c) in MUTATORS]
    if not hit:
        raise AnalysisError("C03-R4 positive control failed")


@rule("C03", "R5", "K1", "a reader keeps open what it needs and closes it exactly once",
      min_instances=2,
      clause="SegmentReader.close closes the terms reader, the per-document reader and (for compound "
             "segments) the storage; CompoundStorage.__init__ closes the raw file handle only when a "
             "memory map replaced it.")
def c03_r5(ctx):
    prog = ctx.prog
    cl = prog.method("reading.SegmentReader", "close", inherited=False)
    ctx.saw(cl)
    closed = [norm.canon(norm.receiver(c)) for c in find_calls(cl, "close")]
    ctx.ob(cl, "self._terms" in closed and "self._perdoc" in closed,
           "close() closes the terms reader and the per-document reader", detail=str(closed))
    ci = prog.method("filedb.compound.CompoundStorage", "__init__", inherited=False)
    ctx.saw(ci)
    fa = guards.Facts(ci)
    bad = []
    n_close = 0
    for n in fa.g.nodes:
        if n.kind != "stmt":
            continue
        for c in norm.calls_in(n.ast):
            if norm.call_name(c) == "close" and norm.canon(norm.receiver(c), fa.al) in ("self._file", "dbfile", "fileobj", "self._file.file"):
                n_close += 1
                facts = fa.at(n) or frozenset()
                if not any(p == "T" and ("mmap" in t.lower() or "_source" in t) for (p, t) in facts):
                    # closing the only handle while no mmap exists would break later reads
                    src_set = False
                    bad.append(norm.stmt_text(n.ast))
    ctx.ob(ci, not bad, "the file handle is closed in __init__ only on the memory-mapped branch",
           detail="unguarded: %s" % bad if bad else "%d guarded close site(s)" % n_close)


# lazily initialised caches of immutable per-segment resources (each confirmed by reading): (class, method) -> {attr: reason}
READER_STATE_OK = {
    ("codec.whoosh3.W3PerDocReader", "column_reader"): {"_colfiles[]": "cache of (file, offset, length) of a column file; the files of a segment never change"},
    ("codec.whoosh3.W3PerDocReader", "_cached_reader"): {"_readers[]": "cache of column readers over immutable column files"},
    ("codec.whoosh3.W3PerDocReader", "_prep_vectors"): {"_vpostfile": "lazy open of the immutable vector postings file"},
    ("reading.MultiReader", "add_reader"): {"base": "construction helper used only while the reader list is being built",
                                            "readers.append()": "same construction helper", "doc_offsets.append()": "same construction helper"},
    ("searching.Searcher", "idf"): {"_idf_cache[]": "memo of a value that depends only on the (immutable) reader and the term"},
    ("searching.Searcher", "refresh"): {"is_closed": "the searcher hands its reader over to the refreshed searcher and retires itself"},
}
READER_BASES = ("reading.IndexReader", "codec.base.PerDocumentReader", "codec.base.TermsReader", "searching.Searcher",
                "codec.base.Automata")


@rule("C03", "R7", "K3", "read APIs keep no per-call state on the shared reader object",
      min_instances=12, also=("C19",),
      clause="No method of a reader/searcher class outside __init__/close stores to self (attributes or items of "
             "attribute containers) except the reviewed lazy caches of immutable segment resources: cursors, "
             "matchers and iteration state belong to the call, so that concurrent or interleaved lookups on one "
             "reader do not disturb each other and a held reader keeps answering for its generation.")
def c03_r7(ctx):
    prog = ctx.prog
    from .c15 import _self_stores
    seen = set()
    n = 0
    # a reviewed cache whose filling helper no longer exists (it was inlined into its caller): the review is about the attribute
    # -- an immutable per-segment resource opened lazily --, so the site that absorbed the helper inherits it.  While the reviewed
    # method exists, the cache may be filled nowhere else (a fill that moves into a public method changes who shares the object).
    moved = {}
    for (cn, m), attrs in READER_STATE_OK.items():
        c = prog.cls(cn)
        if c.methods.get(m) is None:
            for a in attrs:
                moved.setdefault(cn, set()).add(a)
    for bname in READER_BASES:
        base = prog.cls(bname)
        for cls in [base] + prog.subclasses(base, strict=True):
            if cls.qualname in seen:
                continue
            seen.add(cls.qualname)
            n += 1
            wrote = []
            for m, f in cls.methods.items():
                if m in ("__init__", "__setstate__", "close", "__exit__", "__del__"):
                    continue
                ctx.saw(f)
                allowed = set(READER_STATE_OK.get((cls.short, m), {})) | moved.get(cls.short, set())
                for attr, node in _self_stores(f):
                    if attr not in allowed:
                        wrote.append("%s() stores self.%s" % (m, attr))
            ctx.ob(cls, not wrote, "no read method writes to self (outside the reviewed lazy caches)",
                   detail="; ".join(sorted(set(wrote))) if wrote else "", loc=cls.loc)
    for (cn, m) in READER_STATE_OK:
        prog.cls(cn)    # the class itself must exist
    if n < 12:
        raise AnalysisError("only %d reader classes found" % n)


@rule("C03", "R8", "K3", "no finalizer closes what other readers may still share",
      min_instances=12,
      clause="No reader/searcher class defines __del__: Searcher.refresh() and FileIndex._reader(reuse=...) hand the sub-readers of an "
             "old reader over to the new one, so an implicit close when the old object is garbage-collected would close files a live "
             "reader is using. Closing is explicit (close(), context managers).")
def c03_r8(ctx):
    prog = ctx.prog
    seen = set()
    n = 0
    for bname in READER_BASES:
        base = prog.cls(bname)
        for cls in [base] + prog.subclasses(base, strict=True):
            if cls.qualname in seen:
                continue
            seen.add(cls.qualname)
            n += 1
            f = cls.methods.get("__del__")
            ctx.ob(cls, f is None, "%s has no __del__" % cls.name,
                   detail="a finalizer on a reader closes sub-readers that refresh()/reuse may have handed to a live reader" if f else "",
                   loc=f.loc if f else cls.loc)
    if n < 12:
        raise AnalysisError("only %d reader classes found" % n)


@rule("C03", "R9", "K2", "an open reader is re-used for a segment only if the segment's deletions have not changed",
      min_instances=1, also=("C07",),
      clause="Segments compare equal by id, and a commit may delete documents from a segment it keeps. In FileIndex._reader every "
             "place that takes a reader out of the `reusable` map (reusable[seg], .pop(seg), .get(seg)) and hands it to the new reader "
             "is dominated by a comparison of the two segments' deleted documents; otherwise refresh() after a delete-only commit keeps "
             "returning the deleted documents.")
def c03_r9(ctx):
    prog = ctx.prog
    f = prog.method("index.FileIndex", "_reader", inherited=False)
    ctx.saw(f)
    n = 0
    # the map of re-usable readers, by role: a local whose value is derived from the `reuse` parameter and keyed by .segment()
    derived = set([f.params[-1]]) if "reuse" not in f.params else set(["reuse"])
    asg = norm.assigned_names(f.node)
    grew = True
    while grew:
        grew = False
        for nm_, vals in asg.items():
            if nm_ not in derived and any(v is not None and (norm.names_in(v) & derived) for v in vals):
                derived.add(nm_)
                grew = True
    maps = set(nm_ for nm_ in derived if any(v is not None and ".segment()" in norm.canon(v) and isinstance(v, (ast.Call, ast.DictComp, ast.Dict))
                                              for v in asg.get(nm_, [])))
    # ... or filled entry by entry: `M[r.segment()] = r` with r taken from something derived from `reuse`
    loopvars = set()
    for lp in ast.walk(f.node):
        if isinstance(lp, (ast.For, ast.comprehension)) and (norm.names_in(lp.iter) & derived):
            loopvars |= norm.names_in(lp.target)
    for st in ast.walk(f.node):
        if isinstance(st, ast.Assign) and len(st.targets) == 1 and isinstance(st.targets[0], ast.Subscript) \
                and isinstance(st.targets[0].value, ast.Name) and ".segment()" in norm.canon(st.targets[0].slice) \
                and ((norm.names_in(st.value) | norm.names_in(st.targets[0].slice)) & (derived | loopvars)):
            maps.add(st.targets[0].value.id)
    if not maps:
        raise AnalysisError("FileIndex._reader: the map of re-usable readers was not found")
    # the closure (or loop) that picks a reader for a segment
    scopes = [x for x in ast.walk(f.node) if isinstance(x, ast.FunctionDef) and x is not f.node] or [f.node]
    scopes = [(sc_, maps) for sc_ in scopes + ([f.node] if scopes != [f.node] else [])]
    # ... or a method of the same class that is handed the map (the closure given explicit state): the parameter that receives it
    # plays the map's role there
    for c_ in norm.calls_in(f.node):
        if isinstance(c_.func, ast.Attribute) and norm.canon(c_.func.value) in ("cls", "self", f.cls.name if f.cls else ""):
            h = prog.lookup(f.cls, c_.func.attr) if f.cls is not None else None
            if h is None or h is f:
                continue
            hp = [p_ for p_ in h.params if p_ not in ("self", "cls")]
            for i_, a_ in enumerate(c_.args):
                if norm.canon(a_) in maps and i_ < len(hp):
                    scopes.append((h.node, set([hp[i_]])))
                    ctx.saw(h)
    for sc, maps in scopes:
        takes = []
        for x in ast.walk(sc):
            if isinstance(x, ast.Subscript) and isinstance(x.ctx, ast.Load) and norm.canon(x.value) in maps:
                takes.append(x)
            elif isinstance(x, ast.Call) and isinstance(x.func, ast.Attribute) and x.func.attr in ("pop", "get") and norm.canon(x.func.value) in maps:
                takes.append(x)
        if not takes:
            continue
        n += len(takes)
        compares = [c for c in ast.walk(sc) if isinstance(c, ast.Compare) and "deleted" in norm.canon(c)]
        # returned without the comparison in force?
        rets = [r for r in ast.walk(sc) if isinstance(r, ast.Return) and r.value is not None and not isinstance(r.value, ast.Call)]
        guarded = True
        if not compares:
            guarded = False
        else:
            parents = {}
            for p_ in ast.walk(sc):
                for ch in ast.iter_child_nodes(p_):
                    parents[id(ch)] = p_
            for r in rets:
                x = r
                ok = False
                while id(x) in parents:
                    par = parents[id(x)]
                    if isinstance(par, ast.If) and "deleted" in norm.canon(par.test) and any(r is y for b in par.body for y in ast.walk(b)):
                        ok = True
                    x = par
                if not ok:
                    guarded = False
        ctx.ob(f, guarded, "a re-used reader is returned only under a comparison of the segments' deleted documents",
               detail="%d site(s) take a reader out of `reusable`; comparisons on deletions: %d" % (len(takes), len(compares)),
               loc=ctx.nodeloc(f, takes[0]))
    if n < 1:
        raise AnalysisError("FileIndex._reader no longer re-uses readers through `reusable`")


@rule("C03", "R10", "K2", "a refreshed reader takes its segments from the TOC; a reused segment is carried over only if it was never "
      "opened from a TOC", min_instances=1, also=("C06",),
      clause="FileIndex._reader receives the segment list of the TOC it has just read. Any statement that adds to that list a segment "
             "obtained from the `reuse` reader must be guarded by `<leaf>.generation() is None` (a leaf reader this method opened "
             "carries the TOC's generation; one without a generation is a BufferedWriter's in-memory segment). Without the guard "
             "refresh() after a merging commit searches the merged-away segments too and returns every old document twice.")
def c03_r10(ctx):
    import re
    prog = ctx.prog
    f = prog.method("index.FileIndex", "_reader", inherited=False)
    ctx.saw(f)
    params = [p for p in f.params if p not in ("self", "cls")]
    if len(params) < 5:
        raise AnalysisError("FileIndex._reader signature changed: %s" % params)
    segs = "segments" if "segments" in params else params[2]
    reuse = "reuse" if "reuse" in params else params[-1]
    # names derived from the reuse reader
    tainted = set([reuse])
    changed = True
    while changed:
        changed = False
        for x in ast.walk(f.node):
            src, tgts = None, []
            if isinstance(x, ast.Assign):
                src, tgts = x.value, x.targets
            elif isinstance(x, (ast.For, ast.comprehension)):
                src, tgts = x.iter, [x.target]
            if src is None or not (norm.names_in(src) & tainted):
                continue
            for t in tgts:
                for nm in ast.walk(t):
                    if isinstance(nm, ast.Name) and nm.id not in tainted and nm.id != segs:
                        tainted.add(nm.id)
                        changed = True
    fa = guards.Facts(f)
    pat = re.compile(r"^\(None is (\w+)\.generation\(\)\)$")

    def guarded_in_comprehension(value):
        for c in ast.walk(value):
            if isinstance(c, ast.comprehension) and (norm.names_in(c.iter) & tainted or norm.names_in(c.target) & tainted):
                for t in c.ifs:
                    for pol, atom in guards.atoms(t, "T"):
                        m = pat.match(norm.canon(atom)) if pol == "T" else None
                        if m and m.group(1) in tainted:
                            return True
        return False
    n = 0
    for x in ast.walk(f.node):
        value = None
        if isinstance(x, ast.Call) and isinstance(x.func, ast.Attribute) and x.func.attr in ("extend", "append", "insert") \
                and norm.canon(x.func.value) == segs and x.args:
            value = x.args[-1]
        elif isinstance(x, ast.AugAssign) and norm.canon(x.target) == segs:
            value = x.value
        elif isinstance(x, ast.Assign) and any(norm.canon(t) == segs for t in x.targets):
            value = x.value
        if value is None or not (norm.names_in(value) & tainted):
            continue
        n += 1
        node = fa.node_of(x if not isinstance(x, (ast.Assign, ast.AugAssign)) else x.value)
        facts = fa.at(node) if node is not None else None
        ok = False
        if facts:
            for pol, text in facts:
                m = pat.match(text) if pol == "T" else None
                if m and m.group(1) in tainted:
                    ok = True
        ok = ok or guarded_in_comprehension(value)
        ctx.ob(f, ok, "a segment of the reused reader is added to the TOC's list only if its reader has no generation",
               detail="" if ok else "`%s` carries segments of the old reader over: after a merging commit the refreshed reader "
                                    "searches the merged-away segments as well" % norm.canon(x),
               loc=ctx.nodeloc(f, x))
    if n == 0:
        ctx.ob(f, True, "the TOC's segment list is not extended from the reused reader")
