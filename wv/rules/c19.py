"""C19 -- fuzzy matching and spelling suggestions are exact with respect to edit distance."""

import ast
import re

from ..report import rule
from .. import pm, norm, cfg as cfgmod, guards, paths
from ..model import AnalysisError
from .common import calls_of, find_calls, returns_of, is_abstract_body, bind_args


def _is_add_transition(funcnode, c):
    if norm.call_name(c) == "add_transition":
        return True
    if isinstance(c.func, ast.Name):
        a = norm.aliases(funcnode).get(c.func.id)
        return a is not None and norm.canon(a).endswith(".add_transition")
    return False


def _arg(funcnode, e):
    """an argument that is a local bound once to a tuple (`here = (i, e)`) is read through"""
    if isinstance(e, ast.Name):
        vals = norm.assigned_names(funcnode).get(e.id, [])
        if len(vals) == 1 and isinstance(vals[0], ast.Tuple):
            return vals[0]
    return e


def automaton_ops(prog):
    """Edit operations of levenshtein_automaton as (label kind, delta position, delta errors)."""
    f = prog.func("automata.lev.levenshtein_automaton")
    ops = set()
    for c in norm.calls_in(f.node):
        if not _is_add_transition(f.node, c) or len(c.args) != 3:
            continue
        src, lab, dst = _arg(f.node, c.args[0]), c.args[1], _arg(f.node, c.args[2])
        if not (isinstance(src, ast.Tuple) and isinstance(dst, ast.Tuple) and len(src.elts) == 2 and len(dst.elts) == 2):
            continue
        s0, s1 = norm.canon(src.elts[0]), norm.canon(src.elts[1])
        d0, d1 = norm.canon(dst.elts[0]), norm.canon(dst.elts[1])

        def delta(a, b):
            if a == b:
                return 0
            if b in ("(1 + %s)" % a, "(%s + 1)" % a):
                return 1
            if b in ("(2 + %s)" % a, "(%s + 2)" % a):
                return 2
            return "?"
        lk = norm.canon(lab)
        kind = {"ANY": "ANY", "EPSILON": "EPS"}.get(lk, "CHAR")
        ops.add((kind, delta(s0, d0), delta(s1, d1)))
    return f, ops


OP_NAMES = {("CHAR", 1, 0): "match", ("ANY", 0, 1): "insert", ("EPS", 1, 1): "delete", ("ANY", 1, 1): "substitute"}


@rule("C19", "R1", "K4", "the brute-force path and the automaton path implement the same set of edit operations",
      min_instances=4,
      clause="IndexReader.terms_within (multi-segment path) measures with the function `distance` aliases "
             "(Damerau-Levenshtein: delete, insert, substitute, transpose); SegmentReader.terms_within walks "
             "levenshtein_automaton, whose transition templates must provide the same operations; both require the "
             "prefix exactly and both accept every distance <= maxdist; the brute-force loop measures every term of "
             "the prefix expansion.")
def c19_r1(ctx):
    prog = ctx.prog
    # which function is `distance`?
    r = prog.module_export("whoosh.reading", "distance")
    if r is None or r[0] != "func":
        raise AnalysisError("reading.distance does not resolve to a function")
    dist = r[1]
    ctx.saw(dist)
    src = norm.stmt_text(dist.node)
    brute = {"delete": "delcost" in src or "oneago[y] + 1" in src, "insert": "addcost" in src or "thisrow[y - 1] + 1" in src,
             "substitute": "subcost" in src or "!=" in src, "transpose": "twoago" in src}
    brute_ops = set(k for k, v in brute.items() if v)
    af, aops = automaton_ops(prog)
    ctx.saw(af)
    named = set(OP_NAMES.get(o, "unknown%s" % (o,)) for o in aops)
    # a transposition template consumes two characters for one error
    if any(o[1] == 2 and o[2] == 1 for o in aops):
        named.add("transpose")
    auto_ops = named - {"match"}
    ctx.ob("reading.IndexReader.terms_within <-> automata.lev.levenshtein_automaton", brute_ops == auto_ops,
           "both paths implement the same edit operations",
           detail="brute force (%s): %s ; automaton: %s -- a term one transposition away is within distance 1 with several "
                  "segments but not with one" % (dist.short, sorted(brute_ops), sorted(auto_ops)) if brute_ops != auto_ops else "",
           loc=af.loc)
    ctx.ob(af, "match" in named and not any(n.startswith("unknown") for n in named), "automaton transitions are the recognised templates",
           detail=str(sorted(aops)))
    # acceptance: all error counts up to k are final
    finals = [n for n in ast.walk(af.node) if isinstance(n, ast.For) and any(norm.call_name(c) == "add_final_state" for c in norm.calls_in(n))]
    ok = bool(finals) and norm.deep_canon(finals[0].iter, af.node) in ("xrange((1 + k))", "range((1 + k))")
    ctx.ob(af, ok, "every state (len(term), e) with e <= k is final (distance <= k accepted)")
    # prefix: exact transitions for i < prefix
    pl = [n for n in ast.walk(af.node) if isinstance(n, ast.For) and norm.deep_canon(n.iter, af.node) in ("xrange(prefix)", "range(prefix)")]
    okp = bool(pl) and isinstance(pl[0].target, ast.Name) and any(
        norm.canon(c.args[0]) == "(%s, 0)" % pl[0].target.id and norm.canon(c.args[2]) == "((1 + %s), 0)" % pl[0].target.id
        for c in norm.calls_in(pl[0]) if _is_add_transition(af.node, c) and len(c.args) == 3)
    rest = [n for n in ast.walk(af.node) if isinstance(n, ast.For) and norm.deep_canon(n.iter, af.node) in ("xrange(prefix, len(term))", "range(prefix, len(term))")]
    ctx.ob(af, okp and bool(rest), "the first `prefix` characters must match exactly; edits start after them")
    # the exact-prefix loop reads term[i]: the prefix length must have been clamped to len(term) (the brute-force path slices
    # text[:prefix], which cannot overrun)
    def _lenexp(e):
        # len(term), possibly held in a local bound once (termlen = len(term))
        t = norm.canon(e)
        for nm_, vals_ in norm.assigned_names(af.node).items():
            if len(vals_) == 1 and vals_[0] is not None and norm.canon(vals_[0]) == "len(term)":
                t = re.sub(r"(?<![\w.])%s(?![\w])" % re.escape(nm_), "len(term)", t)
        return t
    clamp = [st for st in ast.walk(af.node) if isinstance(st, ast.Assign) and norm.canon(st.targets[0]) == "prefix"
             and _lenexp(st.value) in ("min(prefix, len(term))", "min(len(term), prefix)")]
    loop_clamped = any(isinstance(n, ast.For) and norm.canon(n.iter) in ("range(min(prefix, len(term)))", "xrange(min(prefix, len(term)))",
                                                                          "range(min(len(term), prefix))", "xrange(min(len(term), prefix))")
                       for n in ast.walk(af.node))
    guard = any(isinstance(n, ast.If) and norm.canon(n.test) in ("(len(term) < prefix)", "(prefix > len(term))") for n in ast.walk(af.node))
    apos = norm.source_pos(af.node)
    ctx.ob(af, (bool(clamp) and bool(pl) and apos(clamp[0]) < apos(pl[0])) or loop_clamped or guard,
           "the exact-prefix length is clamped to the length of the term before term[i] is read",
           detail="a prefix longer than the word makes the automaton path raise IndexError where the brute-force path answers")
    tw = prog.method("reading.IndexReader", "terms_within", inherited=False)
    ctx.saw(tw)
    loops = [n for n in ast.walk(tw.node) if isinstance(n, ast.For)]
    ok = len(loops) == 1 and norm.deep_canon(loops[0].iter, tw.node) == "self.expand_prefix(fieldname, text[:prefix])"
    ctx.ob(tw, ok, "brute force enumerates exactly the terms sharing text[:prefix]")
    TA = pm.Alpha(tw)
    dcalls = [c for c in norm.calls_in(tw.node) if norm.call_name(c) == "distance"]
    # the acceptance test, with a local holding the distance (if any) expanded: distance(...) <= maxdist
    tests = [norm.inline_defs(n.test, tw.node) for n in ast.walk(tw.node) if isinstance(n, ast.If)]
    ctx.ob(tw, len(dcalls) == 1 and any(TA.eq(t, "distance(ANY, ANY, limit=maxdist) <= maxdist") or TA.eq(t, "distance(ANY, ANY, maxdist) <= maxdist")
                                        for t in tests), "brute force accepts distance <= maxdist",
           detail=str([TA.text(t) for t in tests]))
    # every enumerated term reaches the distance computation (no pre-filter)
    g = cfgmod.cfg_of(tw)
    fornode = [n for n in g.nodes if n.kind == "for"]
    bad = None
    if fornode:
        has_dist = lambda n: any(norm.call_name(c) == "distance" for frag in cfgmod.node_exprs(n) for c in norm.calls_in(frag))
        starts = [s_ for (s_, l) in fornode[0].succs if l == "iter"]
        for st in starts:
            if has_dist(st):
                continue
            p = cfgmod.find_path(g, st, lambda n: n is fornode[0] or n.kind == "return", avoid_pred=has_dist)
            if p is not None and not any(has_dist(x) for x in p):
                bad = [st] + p
    ctx.ob(tw, bool(fornode) and bad is None, "every term of the expansion is measured with distance() (no shortcut filter before it)",
           path=cfgmod.path_text(bad) if bad else None)
    lv = loops[0].target.id if len(loops) == 1 and isinstance(loops[0].target, ast.Name) else "?"
    ctx.ob(tw, len(dcalls) == 1 and norm.deep_canon(dcalls[0], tw.node) in (
        "distance(self.schema[fieldname].from_bytes(%s), text, limit=maxdist)" % lv, "distance(self.schema[fieldname].from_bytes(%s), text, maxdist)" % lv),
           "distance(decoded term, text, limit=maxdist)", detail=str([norm.deep_canon(c, tw.node) for c in dcalls]))
    # multi-segment readers use the brute-force path, single segments the automaton
    mr = prog.cls("reading.MultiReader")
    ctx.ob(mr, "terms_within" not in mr.methods, "MultiReader inherits the base (brute-force) terms_within", loc=mr.loc)


@rule("C19", "R2", "K2", "suggestions never contain the queried word, and the best `limit` are kept",
      min_instances=1,
      clause="In Corrector.suggest a candidate is pushed only if it differs from the queried text; once the heap is "
             "full a candidate replaces the minimum only if it is strictly better (item > heap[0]); the result is sorted "
             "by (closeness, word).")
def c19_r2(ctx):
    prog = ctx.prog
    f = prog.method("spelling.Corrector", "suggest", inherited=False)
    ctx.saw(f)
    fa = guards.Facts(f)
    SA = pm.Alpha(f)
    for lp in ast.walk(f.node):
        if isinstance(lp, ast.For) and "_suggestions" in norm.deep_canon(lp.iter, f.node) and isinstance(lp.target, ast.Name):
            SA.eq(lp.target, "item")
    pushes = []
    for n in fa.g.nodes:
        for frag in cfgmod.node_exprs(n):
            for c in norm.calls_in(frag):
                if norm.call_name(c) in ("heappush", "heapreplace"):
                    pushes.append((n, c, fa.at(n) or frozenset()))
    ctx.ob(f, len(pushes) == 2, "one heappush and one heapreplace site", detail="%d sites" % len(pushes))
    for n, c, facts in pushes:
        excl = any(("text" in t and ("!=" in t or " not in " in t)) for (p, t) in facts if p == "T") or \
            any(("text" in t and ("==" in t)) for (p, t) in facts if p == "F")
        ctx.ob(f, excl, "%s(...) happens only for a suggestion different from the queried text" % norm.call_name(c),
               detail="no dominating test excludes the queried word itself", loc=ctx.nodeloc(f, c))
        if norm.call_name(c) == "heapreplace":
            ok = SA.eq(c, "heapreplace(heap, item)") and SA.fact(facts, "T", "heap[0] < item")
            ctx.ob(f, ok, "heapreplace only for item > heap[0]", detail="facts: %s" % sorted(facts), loc=ctx.nodeloc(f, c))
        else:
            ok = SA.eq(c, "heappush(heap, item)") and SA.fact(facts, "T", "len(heap) < limit")
            ctx.ob(f, ok, "heappush only while the heap holds fewer than `limit` items", loc=ctx.nodeloc(f, c))
    # sorted(heap, key=K) or heap.sort(key=K); K a lambda or a local one-expression function
    srt = [c for c in norm.calls_in(f.node) if norm.call_name(c) in ("sorted", "sort")]
    localfns = paths.local_functions(f.node)
    keyok = False
    for c in srt:
        for k in c.keywords:
            if k.arg != "key":
                continue
            param = body = None
            if isinstance(k.value, ast.Lambda) and len(k.value.args.args) == 1:
                param, body = k.value.args.args[0].arg, k.value.body
            elif isinstance(k.value, ast.Name) and k.value.id in localfns and len(localfns[k.value.id].args.args) == 1:
                param, body = localfns[k.value.id].args.args[0].arg, paths.func_as_expr(localfns[k.value.id])
            if param is not None and body is not None and \
                    norm.canon(body) in ("((0 - {0}[0]), {0}[1])".format(param), "((-{0}[0]), {0}[1])".format(param)):
                keyok = True
    ctx.ob(f, keyok, "result sorted by (0 - score, word)")


@rule("C19", "R3", "K11", "a suggestion's rank depends on its own distance",
      min_instances=2,
      clause="The score each _suggestions implementation yields is computed from a per-candidate distance (closer "
             "words first), not only from the loop-invariant maxdist.")
def c19_r3(ctx):
    prog = ctx.prog
    base = prog.cls("spelling.Corrector")
    for cls in prog.subclasses(base, strict=True):
        f = cls.methods.get("_suggestions")
        if f is None or is_abstract_body(f):
            continue
        ctx.saw(f)
        params = set(f.params[1:])
        for y in ast.walk(f.node):
            if not isinstance(y, ast.Yield) or y.value is None:
                continue
            v = y.value
            score = v.elts[0] if isinstance(v, ast.Tuple) and v.elts else v
            e = norm.inline_defs(score, f.node)
            names = norm.names_in(e)
            # per-candidate distances: loop variables of enclosing range(...maxdist...) loops (one pass per distance),
            # locals bound from a distance(...) call, and tuple-unpacked loop targets next to the suggestion
            loopvars = set()
            for lp in ast.walk(f.node):
                if isinstance(lp, ast.For) and any(x is y for x in ast.walk(lp)):
                    if isinstance(lp.target, ast.Name) and isinstance(lp.iter, ast.Call) and norm.call_name(lp.iter) in ("range", "xrange") \
                            and "maxdist" in norm.names_in(lp.iter):
                        loopvars.add(lp.target.id)
            for st in ast.walk(f.node):
                if isinstance(st, ast.Assign) and isinstance(st.targets[0], ast.Name) and isinstance(st.value, ast.Call) and \
                        norm.call_name(st.value) == "distance":
                    loopvars.add(st.targets[0].id)
            dist_like = [n for n in names if n in loopvars]
            calls = [norm.call_name(c) for c in norm.calls_in(e)]
            uses_dist = bool(dist_like) or "distance" in calls
            ctx.ob(f, uses_dist, "yielded score depends on the candidate's distance",
                   detail="score = %s uses only %s: every suggestion gets the same distance component, so a frequent "
                          "word at distance 2 outranks rarer words at distance 1" % (norm.canon(e), sorted(names)) if not uses_dist else "",
                   loc=ctx.nodeloc(f, y))


@rule("C19", "R4", "K11", "suggestions are drawn from the field's spelling lexicon on every reader kind",
      min_instances=1,
      clause="ReaderCorrector hands reader.terms_within() the name produced by the field's spelling_fieldname() (the un-stemmed "
             "spelling field when the field keeps one): only SegmentReader.terms_within maps the name itself, the base-class "
             "(multi-segment) implementation expands whatever field it is given.")
def c19_r4(ctx):
    prog = ctx.prog
    f = prog.method("spelling.ReaderCorrector", "_suggestions", inherited=False)
    ctx.saw(f)
    tw = [c for c in norm.calls_in(f.node) if norm.call_name(c) == "terms_within"]
    ok = bool(tw)
    detail = []
    for c in tw:
        m_ = c.args[0] if c.args else next((k.value for k in c.keywords if k.arg == "fieldname"), None)
        t = norm.deep_canon(m_, f.node) if m_ is not None else "?"
        detail.append(t)
        ok = ok and ".spelling_fieldname(" in t
    ctx.ob(f, ok, "terms_within() is asked about <field>.spelling_fieldname(fieldname)", detail="asked about %s" % detail)
    # the two implementations really differ in who translates (if they stop differing the clause above is moot but harmless)
    base = prog.method("reading.IndexReader", "terms_within", inherited=False)
    seg = prog.method("reading.SegmentReader", "terms_within", inherited=False)
    ctx.ob(base, True, "IndexReader.terms_within expands the given field as is: %s" % (
        "no spelling_fieldname" if "spelling_fieldname" not in norm.canon(base.node) else "translates"))
    ctx.saw(seg)


@rule("C19", "R5", "K4", "every corrector produces (score, word) pairs, and the sorted-list lookup never steps over an uncompared word",
      min_instances=3,
      clause="Corrector.suggest() unpacks what _suggestions() produces as (score, suggestion).  Every _suggestions implementation "
             "produces its pairs in that order: a yielded/generated 2-tuple has the candidate word (a loop variable over the word "
             "source, or the second name unpacked from a sub-corrector's pairs) in second place, and the items of a dict are returned "
             "only if the dict is keyed by the score side.  ListCorrector's lookup helper positions itself only by bisection: its "
             "cursor is never advanced arithmetically past a word that has not been compared with the probe.")
def c19_r5(ctx):
    prog = ctx.prog
    base = prog.cls("spelling.Corrector")
    n = 0
    for cls in prog.subclasses(base, strict=True):
        f = cls.methods.get("_suggestions")
        if f is None or is_abstract_body(f):
            continue
        n += 1
        ctx.saw(f)
        words = set()
        for lp in ast.walk(f.node):
            if isinstance(lp, (ast.For, ast.comprehension)):
                t = lp.target
                if isinstance(t, ast.Name):
                    words.add(t.id)
                elif isinstance(t, ast.Tuple) and len(t.elts) == 2 and all(isinstance(e, ast.Name) for e in t.elts):
                    src = norm.canon(lp.iter)
                    if "_suggestions(" in src:
                        words.add(t.elts[1].id)          # for score, sug in corr._suggestions(...)
                    elif norm.call_name(lp.iter) in ("iteritems", "items") if isinstance(lp.iter, ast.Call) else False:
                        pass                            # decided below through the dict's keys
        pairs = []
        for x in ast.walk(f.node):
            if isinstance(x, ast.Yield) and isinstance(x.value, ast.Tuple) and len(x.value.elts) == 2:
                pairs.append((x.value.elts[0], x.value.elts[1], x))
            if isinstance(x, (ast.GeneratorExp, ast.ListComp)) and isinstance(x.elt, ast.Tuple) and len(x.elt.elts) == 2:
                pairs.append((x.elt.elts[0], x.elt.elts[1], x))
        # dicts keyed by a word: their items are (word, score)
        word_keyed = set()
        for st in ast.walk(f.node):
            if isinstance(st, ast.Assign):
                for t in st.targets:
                    if isinstance(t, ast.Subscript) and isinstance(t.value, ast.Name) and isinstance(t.slice, ast.Name) and t.slice.id in words:
                        word_keyed.add(t.value.id)
        bad = []
        for a_, b_, node in pairs:
            # a generator over the items of a word-keyed dict binds (word, score) names itself
            local_words = set(words)
            if isinstance(node, (ast.GeneratorExp, ast.ListComp)):
                g = node.generators[0]
                if isinstance(g.iter, ast.Call) and norm.call_name(g.iter) in ("iteritems", "items") and isinstance(g.target, ast.Tuple) \
                        and len(g.target.elts) == 2 and all(isinstance(e, ast.Name) for e in g.target.elts):
                    dname = norm.canon(g.iter.args[0]) if g.iter.args else norm.canon(norm.receiver(g.iter))
                    if dname in word_keyed:
                        local_words = (local_words - {g.target.elts[1].id}) | {g.target.elts[0].id}
            first_is_word = isinstance(a_, ast.Name) and a_.id in local_words
            second_is_word = isinstance(b_, ast.Name) and b_.id in local_words
            if first_is_word or not second_is_word:
                bad.append("(%s, %s)" % (norm.canon(a_), norm.canon(b_)))
        for r in returns_of(f):
            v = r.value
            if isinstance(v, ast.Call) and norm.call_name(v) in ("iteritems", "items"):
                dname = norm.canon(v.args[0]) if v.args else norm.canon(norm.receiver(v))
                if dname in word_keyed:
                    bad.append("items of %s, a dict keyed by the word: (word, score)" % dname)
                pairs.append((None, None, v))
        ctx.ob(f, bool(pairs) and not bad, "%s._suggestions produces (score, word) pairs" % cls.name,
               detail="wrong order / unrecognised: %s" % bad if bad else "")
    if n < 3:
        raise AnalysisError("only %d _suggestions implementations found" % n)
    sk = prog.cls("spelling.ListCorrector.Skipper") if prog.has_cls("spelling.ListCorrector.Skipper") else None
    if sk is None:
        raise AnalysisError("ListCorrector.Skipper vanished")
    call = sk.methods.get("__call__")
    ctx.saw(call)
    moves = [st for st in ast.walk(call.node) if isinstance(st, (ast.Assign, ast.AugAssign)) and
             any(norm.canon(t) == "self.i" for t in (st.targets if isinstance(st, ast.Assign) else [st.target]))]
    arith = [norm.stmt_text(st) for st in moves if isinstance(st, ast.AugAssign) or
             not (isinstance(st.value, ast.Call) and norm.call_name(st.value) in ("bisect_left", "bisect"))]
    ctx.ob(call, bool(moves) and not arith, "the lookup cursor moves only to a bisection result",
           detail="moved by %s: a word at the old position that was never compared with the probe is stepped over" % arith if arith else "")
