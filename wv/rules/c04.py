"""C04 -- one writer at a time; no committed update is ever lost."""

import ast

from ..report import rule
from .. import norm, cfg as cfgmod, guards
from ..traces import Tracer, fmt, first_index, last_index
from ..model import AnalysisError
from .common import calls_of, writer_classes, find_calls, bind_args, returns_of
from . import c02

# call sites that may construct a SegmentWriter without taking the index lock
LOCK_FREE_SITES = {
    "multiproc.SubWriterTask.run": "sub-process writer of MpWriter: the parent MpWriter holds the index lock",
    "multiproc.SerialMpWriter.__init__": "in-process sub-writers of SerialMpWriter: the parent holds the index lock",
    "codec.memory.MemoryCodec.writer": "RAM buffer of BufferedWriter on a private RamStorage",
}

# Storage classes whose lock() is never an index write lock
NOT_INDEX_STORAGE = {
    "filedb.compound.CompoundStorage": "read-only view of one compound segment file; never the storage of an index "
                                       "(SegmentReader wraps it in OverlayStorage, whose lock() goes to the real storage)",
}

# stdlib lock constructors: is acquire() blocking when called without arguments?
STDLIB_ACQUIRE_BLOCKS = {"Lock": True, "RLock": True, "threading.Lock": True, "threading.RLock": True,
                         "multiprocessing.Lock": True, "Semaphore": True}


@rule("C04", "R1", "K1", "the writer takes the lock before it reads the TOC, and numbers its generation from that read",
      min_instances=1,
      clause="On every path of SegmentWriter.__init__ that reaches ix._read_toc(), try_for(writelock.acquire) "
             "returned true (or _lk is false); a failed acquire raises LockError; generation = "
             "(generation of that same TOC read) + 1, and segments/schema come from the same read.")
def c04_r1(ctx):
    prog = ctx.prog
    f = prog.method("writing.SegmentWriter", "__init__", inherited=False)
    ctx.saw(f)

    # the lock object may be held in a local that is also stored in self.writelock (lock = ix.lock(...); self.writelock = lock)
    lock_names = set(["self.writelock"])
    for st in ast.walk(f.node):
        if isinstance(st, ast.Assign):
            tg = [norm.canon(t) for t in st.targets]
            if "self.writelock" in tg:
                for t in st.targets:
                    if isinstance(t, ast.Name):
                        lock_names.add(t.id)           # self.writelock = lock = ix.lock(...)
                if isinstance(st.value, ast.Name):
                    lock_names.add(st.value.id)        # self.writelock = lock
            elif norm.canon(st.value) == "self.writelock":
                lock_names |= set(t.id for t in st.targets if isinstance(t, ast.Name))

    def classify(func, call, res, concrete):
        n = norm.call_name(call)
        if n == "_read_toc":
            return "read_toc"
        if n == "lock" and func is f:
            return "get_lock"
        if n in ("temp_storage", "new_segment", "per_document_writer", "field_writer") and func is f:
            return "touch:" + n
        return None

    def stmt_event(func, node):
        if node.kind == "raise_stmt" and func is f:
            return "raise:" + norm.canon(node.ast.exc.func if isinstance(node.ast.exc, ast.Call) else node.ast.exc) \
                if node.ast.exc is not None else "raise"
        return None

    def edge_event(func, node, label):
        if func is not f or node.kind != "test":
            return None
        e = node.ast
        pol = label[0]
        if isinstance(e, ast.Call) and norm.call_name(e) == "try_for" and e.args and isinstance(e.args[0], ast.Attribute) and \
                e.args[0].attr == "acquire" and norm.canon(e.args[0].value) in lock_names:
            return "lock.acquired" if pol == "T" else "lock.failed"
        if isinstance(e, ast.Name) and e.id == "_lk":
            return "lk.on" if pol == "T" else "lk.off"
        return None

    tr = Tracer(prog, calls_of(prog), classify, follow=lambda *a: [], stmt_event=stmt_event,
                edge_event=edge_event, max_depth=0)
    res = tr.traces(f, None)
    allt = sorted(res["normal"]) + sorted(res["raise"])
    ctx.ob(f, any("read_toc" in t for t in res["normal"]) and any("lock.acquired" in t for t in allt),
           "constructor has a lock attempt and a TOC read", detail="%d paths" % len(allt))
    bad = None
    for t in allt:
        if "read_toc" in t:
            i = t.index("read_toc")
            if "lock.acquired" not in t[:i] and "lk.off" not in t[:i]:
                bad = t
    ctx.ob(f, bad is None, "every path to ix._read_toc() has acquired the write lock (or is lock-free by _lk=False)",
           detail="TOC read without the lock: %s" % fmt(bad) if bad else "")
    bad = None
    for t in allt:
        if "lock.failed" in t:
            rest = t[t.index("lock.failed") + 1:]
            if not rest or not rest[0].startswith("raise:LockError") or len(rest) > 1:
                bad = t
    ctx.ob(f, bad is None and any("lock.failed" in t for t in allt),
           "a failed acquire raises LockError immediately and does nothing else",
           detail=fmt(bad) if bad else "")
    bad = None
    for t in allt:
        for i, e in enumerate(t):
            if e.startswith("touch:") and "lock.acquired" not in t[:i] and "lk.off" not in t[:i]:
                bad = t
    ctx.ob(f, bad is None, "no segment/temp-storage resources are created before the lock is held",
           detail=fmt(bad) if bad else "")
    # generation = info.generation + 1 of the same read
    want = {"generation": "(1 + ix._read_toc().generation)", "segments": "ix._read_toc().segments",
            "schema": "ix._read_toc().schema"}
    got = {}
    srcs = set()
    for st in ast.walk(f.node):
        if isinstance(st, ast.Assign):
            for t in st.targets:
                if isinstance(t, ast.Attribute) and isinstance(t.value, ast.Name) and t.value.id == "self" \
                        and t.attr in want:
                    got[t.attr] = norm.deep_canon(st.value, f.node)
                    for n in ast.walk(st.value):
                        if isinstance(n, ast.Attribute) and isinstance(n.value, ast.Name) and n.attr == t.attr:
                            srcs.add(n.value.id)
    ctx.ob(f, got.get("generation") == want["generation"],
           "self.generation = (generation of the TOC read under the lock) + 1", detail=str(got.get("generation")))
    ctx.ob(f, got.get("segments") == want["segments"] and got.get("schema") == want["schema"] and len(srcs) == 1,
           "segments and schema come from that same single TOC read", detail="%s; sources %s" % (got, sorted(srcs)))
    n_reads = len(find_calls(f, "_read_toc"))
    ctx.ob(f, n_reads == 1, "the TOC is read exactly once in the constructor", detail="%d reads" % n_reads)
    # the lock is the index's WRITELOCK on the index storage
    lk = [c for c in find_calls(f, "lock")]
    ok = len(lk) == 1 and norm.canon(norm.receiver(lk[0])) == "ix" and lk[0].args and \
        isinstance(lk[0].args[0], ast.Constant) and lk[0].args[0].value == "WRITELOCK"
    ctx.ob(f, ok, "the lock taken is ix.lock(\"WRITELOCK\")")
    il = prog.method("index.FileIndex", "lock", inherited=False)
    rets = [norm.canon(r.value) for r in returns_of(il) if r.value is not None]
    ctx.ob(il, rets == ["self.storage.lock((self.indexname + '_') + name)"] or
           (len(rets) == 1 and rets[0].startswith("self.storage.lock(") and "self.indexname" in rets[0] and "name" in rets[0]),
           "FileIndex.lock derives the lock from its storage, index name and the lock name", detail=str(rets))
    # try_for: polls fn() and returns its last result
    tf = prog.func("util.filelock.try_for")
    rets = [norm.canon(r.value) for r in returns_of(tf) if r.value is not None]
    calls_fn = [c for c in norm.calls_in(tf.node) if isinstance(c.func, ast.Name) and c.func.id == "fn"]
    # the returned local is only ever bound to the result of fn()
    vals = norm.assigned_names(tf.node).get(rets[0], []) if rets and len(set(rets)) == 1 else []
    from_fn = bool(vals) and all(v is not None and isinstance(v, ast.Call) and v in calls_fn for v in vals)
    ctx.ob(tf, from_fn and len(calls_fn) >= 1 and all(not c.args and not c.keywords for c in calls_fn),
           "try_for returns the result of calling fn() with no arguments", detail=str(rets))


@rule("C04", "R2", "K1", "commit() and cancel() release the lock on every path, after the last index-file effect",
      min_instances=8,
      clause="Every non-exceptional path of commit() and cancel() of every index-locking writer reaches "
             "writelock.release() (or holds no lock: _lk=False); on commit the release follows TOC.write, "
             "clean_files and every delete/rename; IndexWriter.__exit__ cancels on exception, commits otherwise.")
def c04_r2(ctx):
    prog = ctx.prog
    classify0, follow = c02.make_classifier(prog)

    def edge_event(func, node, label):
        if node.kind == "test" and norm.canon(node.ast, norm.aliases(func.node)) == "self.writelock":
            return "haslock" if label[0] == "T" else "nolock"
        return None

    def stmt_event(func, node):
        # `self.writelock = None` forgets the lock
        a = node.ast
        if node.kind == "stmt" and isinstance(a, ast.Assign) and any(norm.canon(t) == "self.writelock" for t in a.targets) \
                and func.name != "__init__":
            return "lock.forgotten"
        return None

    tr = Tracer(prog, calls_of(prog), classify0, follow, stmt_event=stmt_event, edge_event=edge_event, max_depth=7)
    effects = lambda e: e in ("TOC.write", "clean_files") or e.startswith(("delete_file@index.", "rename_file@", "os."))
    for c in c02.publishing_writers(prog):
        for m in ("commit", "cancel"):
            f = prog.lookup(c, m)
            if f is None:
                raise AnalysisError("%s has no %s()" % (c.short, m))
            ctx.saw(f)
            res = tr.traces(f, c)
            name = "%s.%s [self=%s]" % (f.short.rsplit(".", 1)[0], m, c.name)
            normal = sorted(res["normal"])
            bad = [t for t in normal if "lock.release" not in t and "nolock" not in t]
            ctx.ob(name, bool(normal) and not bad, "every normal path releases the write lock",
                   detail="path without release: %s" % fmt(bad[0]) if bad else "", loc=f.loc)
            bad = None
            for t in normal:
                if "lock.release" in t:
                    i = t.index("lock.release")
                    late = [e for e in t[i + 1:] if effects(e)]
                    if late:
                        bad = (t, late[0])
                if "lock.forgotten" in t:
                    bad = (t, "lock.forgotten")
            ctx.ob(name, bad is None, "the lock is released only after the last index-file effect of the commit",
                   detail="%s after/around release: %s" % (bad[1], fmt(bad[0])) if bad else "", loc=f.loc)
            bad = [t for t in normal if t.count("lock.release") > 1]
            ctx.ob(name, not bad, "the lock is released at most once", detail=fmt(bad[0]) if bad else "", loc=f.loc)
    # __exit__
    ex = prog.method("writing.IndexWriter", "__exit__", inherited=False)
    ctx.saw(ex)
    fx = guards.Facts(ex)
    sites = {}
    for n_ in fx.g.nodes:
        for frag in cfgmod.node_exprs(n_):
            for c in norm.calls_in(frag):
                if norm.canon(c) in ("self.cancel()", "self.commit()"):
                    sites.setdefault(norm.canon(c), []).append(sorted(fx.at(n_) or []))
    ok = len(ex.params) > 1 and sites == {"self.cancel()": [[("T", ex.params[1])]], "self.commit()": [[("F", ex.params[1])]]}
    ctx.ob(ex, ok, "with-block: cancel() when an exception is propagating, commit() otherwise")
    for c in writer_classes(prog):
        e2 = prog.lookup(c, "__exit__")
        ctx.ob(c, e2 is ex, "%s uses IndexWriter.__exit__" % c.name, loc=c.loc)
    # FcntlLock.release unlocks and closes
    for cname in ("util.filelock.FcntlLock", "util.filelock.MsvcrtLock"):
        r = prog.method(cname, "release", inherited=False)
        ctx.saw(r)
        names = [norm.canon(c) for c in norm.calls_in(r.node)]
        unl = any(("LOCK_UN" in n or "LK_UNLCK" in n) for n in names)
        cl = any(n.startswith("os.close(") for n in names)
        ctx.ob(r, unl and cl, "release() unlocks the file and closes the descriptor", detail=str(names))


@rule("C04", "R3", "K3", "only the three reviewed sites create a writer without the index lock",
      min_instances=3,
      clause="Calls passing _lk=False are exactly the frozen table; the default of _lk is True.")
def c04_r3(ctx):
    prog = ctx.prog
    seen = set()
    for f in prog.functions.values():
        for c in norm.calls_in(f.node, include_nested_defs=True):
            for k in c.keywords:
                if k.arg == "_lk":
                    seen.add(f.short)
                    is_false = isinstance(k.value, ast.Constant) and k.value.value is False
                    ctx.ob(f, (f.short in LOCK_FREE_SITES) or not is_false and isinstance(k.value, ast.Constant),
                           "lock-free writer construction only at reviewed sites",
                           detail=norm.canon(c)[:120], loc=ctx.nodeloc(f, c))
    for s in LOCK_FREE_SITES:
        if s not in seen:
            raise AnalysisError("reviewed _lk=False site %s vanished; re-confirm the table" % s)
    init = prog.method("writing.SegmentWriter", "__init__", inherited=False)
    a = init.node.args
    params = [x.arg for x in a.args]
    d = dict(zip(params[len(params) - len(a.defaults):], a.defaults))
    ctx.ob(init, "_lk" in d and isinstance(d["_lk"], ast.Constant) and d["_lk"].value is True,
           "SegmentWriter(_lk=...) defaults to True")
    # MpWriter/SerialMpWriter constructors go through SegmentWriter.__init__ (and so take the lock)
    for cname in ("multiproc.MpWriter", "multiproc.SerialMpWriter"):
        ini = prog.method(cname, "__init__", inherited=False)
        cal = calls_of(prog)
        cs = []
        for c in norm.calls_in(ini.node):
            if norm.call_name(c) != "__init__":
                continue
            res = cal.resolve(ini, c, prog.cls(cname))
            tg = [t for t in (res.targets if hasattr(res, "targets") else [])]
            if norm.canon(c.func) == "SegmentWriter.__init__" or any(getattr(t, "qualname", "").endswith("writing.SegmentWriter.__init__") for t in tg):
                cs.append(c)
        ok = len(cs) == 1 and not any(k.arg == "_lk" for k in cs[0].keywords)
        ctx.ob(ini, ok, "parent multi-process writer initialises through SegmentWriter.__init__ with locking on")


@rule("C04", "R4", "K10", "every lock a Storage hands out is non-blocking by default (try_for polls acquire())",
      min_instances=3,
      clause="For every concrete Storage.lock() implementation, the object returned has acquire() whose "
             "no-argument call does not block; otherwise a second writer hangs instead of raising LockError.")
def c04_r4(ctx):
    prog = ctx.prog
    base = prog.cls("filedb.filestore.Storage")
    for c in prog.subclasses(base):
        f = c.methods.get("lock")
        if f is None or c.short in NOT_INDEX_STORAGE:
            continue
        ctx.saw(f)
        from .common import is_abstract_body
        if is_abstract_body(f):
            continue
        rets = [r.value for r in returns_of(f) if r.value is not None]
        if not rets:
            ctx.ob(f, False, "lock() returns a lock object")
            continue
        for rv in rets:
            exprs = [rv]
            # return self.locks[name]  -> what is stored there
            if isinstance(rv, (ast.Subscript, ast.Name)):
                # ... or a local bound to it (newlock = self.locks[name] = RamLock(); return newlock)
                exprs = []
                for st in ast.walk(f.node):
                    if isinstance(st, ast.Assign) and any(norm.canon(t) == norm.canon(rv) for t in st.targets):
                        exprs.append(st.value)
            for e in exprs:
                if isinstance(e, ast.Call) and norm.call_name(e) == "lock":
                    ctx.ob(f, True, "delegates to another storage's lock(): %s" % norm.canon(e))
                    continue
                if not isinstance(e, ast.Call):
                    ctx.ob(f, False, "lock() result is a constructed lock object", detail=norm.canon(e))
                    continue
                r = prog.resolve_in_func(f, e.func)
                if r is not None and r[0] == "class":
                    acq = prog.lookup(r[1], "acquire")
                    ok = False
                    if acq is not None:
                        a = acq.node.args
                        params = [x.arg for x in a.args]
                        d = dict(zip(params[len(params) - len(a.defaults):], a.defaults))
                        ok = "blocking" in d and isinstance(d["blocking"], ast.Constant) and d["blocking"].value is False
                    ctx.ob(f, ok, "returns %s whose acquire() defaults to non-blocking" % r[1].name)
                else:
                    nm = norm.canon(e.func)
                    blocks = STDLIB_ACQUIRE_BLOCKS.get(nm)
                    if blocks is None and r is not None and r[0] == "external":
                        blocks = STDLIB_ACQUIRE_BLOCKS.get(r[1].split(".")[-1])
                    ctx.ob(f, blocks is False, "returns %s() whose acquire() defaults to non-blocking" % nm,
                           detail="stdlib %s.acquire() blocks by default: a second writer hangs in try_for "
                                  "instead of raising LockError" % nm if blocks else "unknown lock type")


@rule("C04", "R5", "K1", "writer front-ends obtain, use and finish the real writer in order",
      min_instances=2,
      clause="AsyncWriter.run loops until it holds a writer, replays the recorded events in order, then "
             "commits; BufferedWriter.commit hands the buffered documents to the writer before committing it.")
def c04_r5(ctx):
    prog = ctx.prog
    run = prog.method("writing.AsyncWriter", "run", inherited=False)
    ctx.saw(run)

    # helpers that wait for the lock and hand back the real writer: every return is self.index.writer(...) and the body cannot
    # fall off its end (it ends in `while True:` without a break)
    aw = prog.cls("writing.AsyncWriter")
    getters = set()
    for name, g_ in aw.methods.items():
        rets = [r.value for r in returns_of(g_)]
        last = g_.node.body[-1] if g_.node.body else None
        endless = isinstance(last, ast.While) and isinstance(last.test, ast.Constant) and last.test.value is True and \
            not any(isinstance(x, ast.Break) for x in ast.walk(last))
        gal = norm.aliases(g_.node)
        if name != "run" and rets and all(v is not None and norm.canon(norm.inline_defs(v, g_.node), gal).startswith("self.index.writer(") for v in rets) and endless:
            getters.add(name)
    # helpers that make one attempt: every return is self.index.writer(...) or None (the caller tests the result)
    attempts = set()
    for name, g_ in aw.methods.items():
        rets = [r.value for r in returns_of(g_)]
        gal = norm.aliases(g_.node)
        vals = [v for v in rets if not (v is None or (isinstance(v, ast.Constant) and v.value is None))]
        if name != "run" and name not in getters and vals and all(norm.canon(norm.inline_defs(v, g_.node), gal).startswith("self.index.writer(") for v in vals):
            attempts.add(name)

    ral = norm.aliases(run.node)

    def obtains(v):
        t = norm.canon(v, ral)
        return "self.index.writer(" in t or any(t == "self.%s()" % g_ for g_ in getters | attempts)
    # the local that holds the real writer: bound from self.index.writer(...) (and possibly self.writer first)
    wvars = [n for n, vals in norm.assigned_names(run.node).items() if any(v is not None and obtains(v) for v in vals)]
    wvar = wvars[0] if len(wvars) == 1 else None

    def classify(func, call, res, concrete):
        t = norm.canon(call)
        if obtains(call):
            return "get_writer"
        if norm.call_name(call) == "getattr" and call.args and norm.canon(call.args[0]) in (wvar, "self.writer"):
            return "replay"
        if norm.call_name(call) == "commit" and norm.canon(norm.receiver(call)) in (wvar, "self.writer"):
            return "commit"
        return None

    tr = Tracer(prog, calls_of(prog), classify, follow=lambda *a: [], max_depth=0)
    res = tr.traces(run, None)
    bad = None
    for t in res["normal"]:
        ok = bool(t) and t[-1] == "commit" and t.count("commit") == 1
        if "get_writer" in t:
            ok = ok and ("replay" not in t or first_index(t, lambda e: e == "replay") > last_index(t, lambda e: e == "get_writer"))
        if not ok:
            bad = t
    ctx.ob(run, bool(res["normal"]) and bad is None, "run(): obtain writer, replay events, commit last",
           detail=fmt(bad) if bad else "")
    # the writer-obtaining loop only exits with a writer
    # wherever the recorded events start to be replayed, the writer is known to be there (the loop cannot be left without one)
    fr = guards.Facts(run, nonnull=lambda c: any(norm.canon(c) == "self.%s()" % g_ for g_ in getters))
    ok = False
    for n_ in fr.g.nodes:
        if n_.kind in ("for", "iter_init") and isinstance(n_.ast, ast.For) and norm.canon(n_.ast.iter) == "self.events":
            alts = fr.alternatives(n_) or []
            ok = wvar is not None and bool(alts) and all(("F", "(None is %s)" % wvar) in a_ or ("T", wvar) in a_ for a_ in alts)
            break
    ctx.ob(run, ok, "the acquisition loop repeats while no writer was obtained")
    # events are replayed in recorded order
    fors = [n for n in ast.walk(run.node) if isinstance(n, ast.For)]
    ok = any(norm.canon(n.iter) == "self.events" for n in fors)
    ctx.ob(run, ok, "events are replayed by iterating self.events in order")
    rec = prog.method("writing.AsyncWriter", "_record", inherited=False)
    ok = any(norm.call_name(c) == "append" and norm.canon(norm.receiver(c)) == "self.events" for c in norm.calls_in(rec.node))
    ctx.ob(rec, ok, "_record appends to self.events")


@rule("C04", "R6", "K3", "a lock is its file: lock operations never remove or rename the lock file; AsyncWriter decides once whether it buffers",
      min_instances=2, also=("C18", "C02"),
      clause="No function of whoosh.util.filelock calls os.remove/os.unlink/os.rename (a waiter that locked the old inode "
             "and a newcomer that created a new file would both hold 'the' lock); AsyncWriter binds self.writer only in "
             "its constructor (a writer obtained later would apply later calls directly and skip the recorded ones).")
def c04_r6(ctx):
    prog = ctx.prog
    mod = prog.module("util.filelock")
    n = 0
    for f in prog.functions.values():
        if f.module is not mod:
            continue
        n += 1
        ctx.saw(f)
        bad = [norm.canon(c) for c in norm.calls_in(f.node, include_nested_defs=True)
               if isinstance(c.func, ast.Attribute) and isinstance(c.func.value, ast.Name) and c.func.value.id in ("os", "shutil")
               and c.func.attr in ("remove", "unlink", "rename", "replace", "rmtree", "move")]
        ctx.ob(f, not bad, "does not remove or rename the lock file", detail=str(bad) if bad else "")
    if n < 5:
        raise AnalysisError("only %d functions in util.filelock" % n)
    # positive control
    sample = ast.parse("def release(self):\n    os.remove(self.filename)\n").body[0]
    if not [c for c in norm.calls_in(sample) if isinstance(c.func, ast.Attribute) and c.func.attr == "remove"]:
        raise AnalysisError("C04-R6 positive control failed")
    aw = prog.cls("writing.AsyncWriter")
    from .c15 import _self_stores
    for m, f in aw.methods.items():
        if m == "__init__":
            continue
        w = [a for a, _ in _self_stores(f) if a == "writer"]
        ctx.ob(f, not w, "does not rebind self.writer (only the constructor decides between direct and buffered mode)")


RELEASING = ("self._finish", "self.writelock.release")   # what releases the lock / destroys the shared temporary storage


@rule("C04", "R7", "K1", "a finished writer is refused before anything is released a second time; a failed acquire leaves no stale descriptor",
      min_instances=3, also=("C07", "C18"),
      clause="In every method of SegmentWriter and its subclasses (other than the helpers themselves) each call of _finish() "
             "or writelock.release() is dominated by self._check_state() -- in the method itself or, for a private helper, at every "
             "call site of it -- which raises once the writer is closed: "
             "commit()/cancel() on a finished writer must not run the release steps again (they destroy the index's shared temporary "
             "storage and release a lock another writer may hold by now).  In the file-lock classes, once a descriptor was passed to "
             "os.close() every path to the end of the function re-binds the attribute that held it (a kept number may later denote "
             "another writer's lock file).")
def c04_r7(ctx):
    prog = ctx.prog
    base = prog.cls("writing.SegmentWriter")
    n = 0
    classes = prog.subclasses(base)
    allm = [f for cls in classes for f in cls.methods.values()]

    def dominated_by_check(f, pred):
        """for every reachable node of f satisfying pred: is it dominated by a self._check_state() call in f?  -> list of (node, bool)"""
        g = cfgmod.cfg_of(f)
        dom = g.dominators()
        out = []
        for node in g.nodes:
            if node.id not in dom or not pred(node):
                continue
            checked = any(any(norm.canon(c.func) == "self._check_state" for frag in cfgmod.node_exprs(d) for c in norm.calls_in(frag))
                          for d in g.nodes if d.id in dom[node.id] and d is not node)
            out.append((node, checked))
        return out

    def callers_guard(f, depth=0):
        """a private helper is fine if every call of it (self.<name>(...) in the writer classes) is itself dominated by the check,
        or sits in another private helper for which the same holds"""
        if depth > 4 or not f.name.startswith("_") or f.name.startswith("__"):
            return False, "%s is an entry point" % f.short
        sites = []
        for g_ in allm:
            if g_ is f:
                continue
            calls_f = lambda node, _n=f.name: any(norm.canon(c.func) == "self." + _n for frag in cfgmod.node_exprs(node) for c in norm.calls_in(frag))
            for node, checked in dominated_by_check(g_, calls_f):
                sites.append((g_, checked))
        if not sites:
            return False, "no caller of %s found" % f.short
        for g_, checked in sites:
            if checked:
                continue
            ok, why = callers_guard(g_, depth + 1)
            if not ok:
                return False, "called from %s without a preceding _check_state() (%s)" % (g_.short, why)
        return True, ""
    for cls in classes:
        for name, f in cls.methods.items():
            if name in ("_finish", "_close_segment", "__init__", "_check_state"):
                continue
            is_rel = lambda node: any(norm.canon(c.func) in RELEASING for frag in cfgmod.node_exprs(node) for c in norm.calls_in(frag))
            for node, checked in dominated_by_check(f, is_rel):
                rel = [c for frag in cfgmod.node_exprs(node) for c in norm.calls_in(frag) if norm.canon(c.func) in RELEASING]
                n += 1
                ctx.saw(f)
                why = ""
                if not checked:
                    checked, why = callers_guard(f)
                ctx.ob(f, checked, "%s() runs only after _check_state() has accepted the writer" % norm.canon(rel[0].func),
                       detail="on a writer that is already finished this releases the lock / destroys the temporary storage a second time; " + why,
                       loc=ctx.nodeloc(f, rel[0]))
    if n < 3:
        raise AnalysisError("only %d release sites found in the segment writers" % n)
    # file locks: a closed descriptor number is not kept
    m = 0
    for cname in ("util.filelock.FcntlLock", "util.filelock.MsvcrtLock"):
        cls = prog.cls(cname)
        for name, f in cls.methods.items():
            g = cfgmod.cfg_of(f)
            for node in g.nodes:
                closes = [c for frag in cfgmod.node_exprs(node) for c in norm.calls_in(frag)
                          if norm.canon(c.func) == "os.close" and c.args and norm.canon(c.args[0]).startswith("self.")]
                for c in closes:
                    attr = norm.canon(c.args[0])
                    m += 1
                    ctx.saw(f)

                    def rebinds(n_, _a=attr):
                        a_ = n_.ast
                        return n_.kind == "stmt" and isinstance(a_, ast.Assign) and any(norm.canon(t) == _a for t in a_.targets)
                    bad = cfgmod.find_path(g, node, lambda n_: n_ is g.exit, avoid_pred=rebinds) if not rebinds(node) else None
                    ctx.ob(f, bad is None, "after os.close(%s) every path re-binds %s before the function ends" % (attr, attr),
                           detail="the closed descriptor's number stays in %s: a later release()/__del__ unlocks and closes whatever file "
                                  "got that number meanwhile" % attr, path=cfgmod.path_text(bad) if bad else None, loc=ctx.nodeloc(f, c))
    if m < 2:
        raise AnalysisError("only %d os.close(self.<fd>) sites found in the file locks" % m)


@rule("C04", "R8", "K3", "the in-memory write lock is not re-entrant",
      min_instances=1, also=("C18",),
      clause="RamLock -- the write lock of RamStorage and of every index copied to RAM -- wraps threading.Lock (resolved through the "
             "module's imports), never a re-entrant lock: a second writer opened by the thread that already holds one must get LockError "
             "exactly like with a file lock, or two writers of one thread publish conflicting generations.")
def c04_r8(ctx):
    prog = ctx.prog
    K = prog.cls("filedb.filestore.RamLock")
    init = K.methods.get("__init__")
    if init is None:
        raise AnalysisError("RamLock has no constructor")
    ctx.saw(init)
    made = []
    for st in ast.walk(init.node):
        if isinstance(st, ast.Assign) and any(norm.canon(t).startswith("self.") for t in st.targets) and isinstance(st.value, ast.Call):
            fn = st.value.func
            r = prog.resolve_in_func(init, fn) if isinstance(fn, (ast.Name, ast.Attribute)) else None
            name = None
            if r is not None and r[0] == "external":
                name = ".".join(str(x) for x in r[1:]) if len(r) > 1 else norm.canon(fn)
            made.append((norm.canon(st.targets[0]), norm.canon(fn), name))
    locks = [m for m in made if "lock" in m[1].lower() or "semaphore" in m[1].lower()]
    ok = len(locks) == 1 and (locks[0][2] or locks[0][1]).split(".")[-1] == "Lock"
    ctx.ob(K, ok, "RamLock is built on threading.Lock", detail=str(locks), loc=init.loc)
