"""C12 -- quality bounds are true upper bounds on scores."""

import ast
import itertools

from ..report import rule
from .. import norm, cfg as cfgmod, matchers as M, shapes as S
from ..model import AnalysisError
from .common import calls_of, find_calls, returns_of, is_abstract_body, bind_args
from .c11 import NOT_A_CURSOR


def return_shapes(prog, cls, mname):
    """[(conds, term)] for the method as resolved on cls; None if missing/abstract."""
    f = prog.lookup(cls, mname)
    if f is None or is_abstract_body(f):
        return None, None
    sym, ps = S.paths(f)
    out = []
    for conds, env, ret in ps:
        if ret is None or ret.ast.value is None:
            continue
        out.append((conds, sym.ev(ret.ast.value, env)))
    return f, out


def has_unknown(t):
    if t[0] == "unknown":
        return True
    if t[0] in ("sum", "max"):
        return any(has_unknown(x) for x in t[1])
    if t[0] in ("scale", "apply"):
        return has_unknown(t[2])
    if t[0] == "choice":
        return has_unknown(t[1]) or has_unknown(t[2])
    return False


def buffer_content_shape(prog, cls):
    """For buffered union matchers: shape of what is accumulated into the score
    buffer (`a[i] += m.score() * boost` inside a loop over the sub-matchers)."""
    for mname in ("_read_part", "__init__"):
        f = prog.lookup(cls, mname)
        if f is None:
            continue
        al = norm.aliases(f.node)
        for lp in ast.walk(f.node):
            if not isinstance(lp, ast.For) or not isinstance(lp.target, ast.Name):
                continue
            coll = norm.canon(lp.iter, al)
            if not coll.startswith("self."):
                # `active = [m for m in self._submatchers if ...]` style
                d = norm.definitions(f.node).get(coll)
                if d is None:
                    continue
                coll = "self._submatchers" if "self._submatchers" in norm.canon(d, al) else coll
            var = lp.target.id
            for st in ast.walk(lp):
                if isinstance(st, ast.AugAssign) and isinstance(st.op, ast.Add) and isinstance(st.target, ast.Subscript):
                    sym = S.Sym(f)
                    env = {var: ("childref", "@elem")}
                    # resolve a local `score = m.score() * boost`
                    val = norm.inline_defs(st.value, f.node)
                    t = sym.ev(val, env)
                    if t[0] == "choice":
                        t = t[1]

                    def lift(x):
                        if x[0] == "atom" and x[2] == "@elem":
                            return ("all", "sum", x[1], coll, False)
                        if x[0] == "scale":
                            return ("scale", x[1], lift(x[2]))
                        return x
                    return f, lift(t)
    return None, None


@rule("C12", "R1", "K8", "a composite matcher's max_quality/block_quality shape dominates its score shape",
      min_instances=10, also=("C05",),
      clause="For every matcher class that may claim block-quality support, and every combination of "
             "active/exhausted children, the symbolic shape returned by max_quality() and block_quality() is a "
             "structural upper bound (Sum >= Max >= member, same scale factor) of every shape score() can return; "
             "buffered unions bound the accumulated buffer content.",
      assumes=["all term scores are >= 0 (false for ReverseWeighting, handled by C12-R4)",
               "max_quality(x) >= block_quality(x) >= score(x) for a child x is the induction hypothesis"])
def c12_r1(ctx):
    prog = ctx.prog
    inst = M.instantiated_classes(prog)
    for cls in M.matcher_classes(prog):
        if cls.short in NOT_A_CURSOR or M.constant_false_sbq(prog, cls):
            continue
        if cls.qualname not in inst and not any(s.qualname in inst for s in prog.subclasses(cls)):
            continue
        sf, sc = return_shapes(prog, cls, "score")
        if not sc:
            continue
        if any(has_unknown(t) for _, t in sc):
            continue  # leaf: score delegated to the scorer (C12-R3)
        ctx.saw(sf)
        children = sorted(set(ch for _, t in sc for ch in _children_in(t)))
        configs = [dict(zip(children, v)) for v in itertools.product([True, False], repeat=len(children))] or [{}]
        buffered = any(t == ("atom", "BUF", "_a") or (t[0] == "scale" and t[2] == ("atom", "BUF", "_a")) for _, t in sc)
        for bname in ("max_quality", "block_quality"):
            if buffered and bname == "max_quality":
                continue  # compared with the accumulated buffer content below
            bf, bs = return_shapes(prog, cls, bname)
            if bs is None:
                continue
            if not bs:
                ctx.ob(cls, False, "%s() returns a bound on every path" % bname, loc=cls.loc)
                continue
            ctx.saw(bf)
            bad = None
            for cfgn in configs:
                if children and not any(cfgn.values()):
                    continue  # everything exhausted: matcher inactive, no current entry
                spaths = [t for (c, t) in sc if S.consistent(c, cfgn)]
                bpaths = [t for (c, t) in bs if S.consistent(c, cfgn)]
                # a score shape mentioning an exhausted child cannot occur in that configuration
                spaths = [t for t in spaths if all(cfgn.get(ch, True) for ch in _children_in(t))]
                for b_ in bpaths:
                    for s_ in spaths:
                        if not S.geq(b_, s_):
                            bad = (cfgn, b_, s_)
            ctx.ob("%s.%s" % (cls.short, bname), bad is None,
                   "%s shape dominates the score shape in every activity configuration" % bname,
                   detail="with %s: %s = %s does not bound score = %s" % (
                       {k: ("active" if v else "exhausted") for k, v in bad[0].items()}, bname, S.show(bad[1]), S.show(bad[2]))
                   if bad else "score: %s" % sorted(set(S.show(t) for _, t in sc)),
                   loc=bf.loc)
        # buffered unions: the bound must dominate what is accumulated into the buffer
        if any(t == ("atom", "BUF", "_a") or (t[0] == "scale" and t[2] == ("atom", "BUF", "_a")) for _, t in sc):
            cf, content = buffer_content_shape(prog, cls)
            if content is None:
                raise AnalysisError("cannot find the buffer accumulation of %s" % cls.short)
            # score() may scale the buffered value again
            full = content
            for _, t in sc:
                if t[0] == "scale":
                    full = ("scale", t[1], content)
            bf, bs = return_shapes(prog, cls, "max_quality")
            bad = [b_ for (_, b_) in (bs or []) if not S.geq(b_, full)]
            ctx.ob("%s.max_quality" % cls.short, bs is not None and not bad,
                   "max_quality dominates the accumulated buffer content",
                   detail="max_quality = %s does not bound buffered score = %s" % (S.show(bad[0]), S.show(full)) if bad
                   else "buffer content: %s" % S.show(full), loc=bf.loc if bf else cls.loc)


def _children_in(t):
    if t[0] == "atom":
        return [t[2]] if t[2] in ("a", "b", "child") else []
    if t[0] in ("sum", "max"):
        return [c for x in t[1] for c in _children_in(x)]
    if t[0] in ("scale", "apply"):
        return _children_in(t[2])
    if t[0] == "choice":
        return _children_in(t[1]) + _children_in(t[2])
    return []


# ----------------------------------------------------------------- scorers
def _subst_text(expr, func, mapping):
    """canon text of expr with sub-expressions (by canon text) replaced by symbols."""
    import copy

    class T(ast.NodeTransformer):
        def generic_visit(self, node):
            if isinstance(node, ast.expr):
                t = norm.canon(node)
                if t in mapping:
                    return ast.Name(id=mapping[t], ctx=ast.Load())
            return super(T, self).generic_visit(node)

        def visit(self, node):
            if isinstance(node, ast.expr):
                t = norm.canon(node)
                if t in mapping:
                    return ast.Name(id=mapping[t], ctx=ast.Load())
            return super(T, self).visit(node)
    return norm.canon(T().visit(copy.deepcopy(expr)))


def claims_quality(prog, cls):
    f = prog.lookup(cls, "supports_block_quality")
    if f is None:
        return False
    rets = [r.value for r in returns_of(f) if r.value is not None]
    return not (len(rets) == 1 and isinstance(rets[0], ast.Constant) and rets[0].value is False)


@rule("C12", "R3", "K4", "a scorer's block/max quality is its score formula at (max weight, min length)",
      min_instances=4,
      clause="For every scorer claiming block-quality support: block_quality(m) is score(m) with m.weight() "
             "replaced by m.block_max_weight() and the document length by m.block_min_length(); max_quality() "
             "returns the same formula at (term max weight, term min length); constructor sites pass the term's "
             "max_weight().")
def c12_r3(ctx):
    prog = ctx.prog
    base = prog.cls("scoring.BaseScorer")
    for cls in prog.subclasses(base, strict=True):
        if not claims_quality(prog, cls) or cls.short == "scoring.WeightLengthScorer":
            continue
        sf = prog.lookup(cls, "score")
        bf = prog.lookup(cls, "block_quality")
        mf = prog.lookup(cls, "max_quality")
        if sf is None or is_abstract_body(sf):
            continue
        ctx.saw(sf)
        srets = [r.value for r in returns_of(sf) if r.value is not None]
        brets = [r.value for r in returns_of(bf) if r.value is not None] if bf and not is_abstract_body(bf) else []
        if len(srets) != 1 or len(brets) != 1:
            ctx.ob(cls, False, "score() and block_quality() are single-expression formulas", loc=cls.loc)
            continue
        s_e = norm.inline_defs(srets[0], sf.node)
        b_e = norm.inline_defs(brets[0], bf.node)
        s_t = _subst_text(s_e, sf, {"matcher.weight()": "W", "self.dfl(matcher.id())": "L",
                                    "self.searcher.doc_field_length(matcher.id(), self.fieldname)": "L"})
        b_t = _subst_text(b_e, bf, {"matcher.block_max_weight()": "W", "matcher.block_min_length()": "L"})
        negated = s_t.startswith("(0 - ") or s_t.startswith("(-")
        if negated:
            ctx.ob(cls, False, "the score is not a negated sub-score (negation turns upper bounds into lower bounds)",
                   detail="score = %s: the bounds derived by the same negation are lower bounds" % s_t, loc=sf.loc)
            continue
        ctx.ob(cls, s_t == b_t and "matcher." not in b_t.replace("matcher)", ""),
               "block_quality = score formula at (block max weight, block min length)",
               detail="score: %s ; block_quality: %s" % (s_t, b_t), loc=bf.loc)
        ctx.ob(cls, True, "the score is not a negated sub-score (negation turns upper bounds into lower bounds)", loc=sf.loc)
        # max_quality
        if mf is None or is_abstract_body(mf):
            ctx.ob(cls, False, "max_quality() is implemented", loc=cls.loc)
            continue
        mrets = [r.value for r in returns_of(mf) if r.value is not None]
        m_t = None
        if len(mrets) == 1:
            e = mrets[0]
            if isinstance(e, ast.Attribute) and isinstance(e.value, ast.Name) and e.value.id == "self":
                # find the assignment of that attribute in the class (setup / __init__)
                for k in prog.mro(cls):
                    if isinstance(k, str):
                        continue
                    for g in k.methods.values():
                        for st in ast.walk(g.node):
                            if isinstance(st, ast.Assign) and any(norm.canon(t) == norm.canon(e) for t in st.targets):
                                # parameters stored on self are equal to the attribute
                                amap = {}
                                for st2 in ast.walk(g.node):
                                    if isinstance(st2, ast.Assign) and isinstance(st2.value, ast.Name) and \
                                            isinstance(st2.targets[0], ast.Attribute):
                                        amap[st2.value.id] = norm.canon(st2.targets[0])
                                val = norm.inline_defs(st.value, g.node)
                                m_t = _subst_text(val, g, {"ti.max_weight()": "W", "ti.min_length()": "L", "maxweight": "W",
                                                          "searcher.term_info(fieldname, text).max_weight()": "W",
                                                          "searcher.term_info(fieldname, text).min_length()": "L"})
                                for pn, an in amap.items():
                                    m_t = m_t.replace(pn, an) if pn not in ("W", "L") and pn + "." not in m_t else m_t
                    if m_t:
                        break
            else:
                m_t = _subst_text(norm.inline_defs(e, mf.node), mf, {})
        # compare modulo self._score(W, L) indirection
        def unfold(t):
            return t
        same = m_t is not None and (m_t == s_t or m_t == b_t or
                                    m_t.replace("self._score(W, L)", "") == "" and "self._score(W, L)" in (s_t, b_t))
        ctx.ob(cls, same, "max_quality = score formula at (term max weight, term min length)",
               detail="score: %s ; max_quality value: %s" % (s_t, m_t), loc=mf.loc)
    # constructor sites of scorers taking `maxweight` pass the term's max_weight()
    for cname in ("scoring.WeightScorer", "scoring.TF_IDFScorer"):
        cls = prog.cls(cname)
        init = prog.lookup(cls, "__init__")
        n = 0
        for f in prog.functions.values():
            if not f.module.name == "whoosh.scoring":
                continue
            for c in norm.calls_in(f.node):
                nm = norm.call_name(c)
                if nm == cls.name or (nm == "cls" and f.cls is cls):
                    m, probs = bind_args(c, init)
                    if not m or "maxweight" not in m:
                        continue
                    n += 1
                    t = norm.deep_canon(m["maxweight"], f.node)
                    ctx.ob(f, t.endswith(".max_weight()"), "%s(maxweight=...) receives the term's max_weight()" % cls.name,
                           detail=t, loc=ctx.nodeloc(f, c))
        if n == 0:
            raise AnalysisError("no constructor site of %s found" % cname)


@rule("C12", "R4", "K8", "a scorer claims quality support only if its score is derivably monotone (up in weight, down in length)",
      min_instances=1,
      clause="For every WeightLengthScorer subclass claiming block quality, _score(weight, length) -- with the "
             "module-level formula it calls inlined -- is derived non-decreasing in weight and non-increasing in "
             "length by the monotonicity domain (+, -, *, / with positivity, saturating x/(x+c), log); otherwise "
             "evaluating it at (max weight, min length) is not an upper bound.",
      assumes=["weights, lengths, idf, avgfl, K1, qf, c are positive; B is in [0, 1]"])
def c12_r4(ctx):
    from ..mono import Mono
    prog = ctx.prog
    base = prog.cls("scoring.WeightLengthScorer")
    for cls in prog.subclasses(base, strict=True):
        f = prog.lookup(cls, "_score")
        if f is None or is_abstract_body(f):
            continue
        ctx.saw(f)
        claims = claims_quality(prog, cls)
        params = f.params[1:]
        if len(params) != 2:
            raise AnalysisError("%s._score signature changed" % cls.short)
        env = {}
        ret = None
        for st in f.node.body:
            if isinstance(st, ast.Assign) and len(st.targets) == 1 and isinstance(st.targets[0], ast.Name):
                env[st.targets[0].id] = st.value
            elif isinstance(st, ast.Return):
                ret = st.value
        mw = Mono(prog, f.module, params[0], env).mono(ret) if ret is not None else "?"
        ml = Mono(prog, f.module, params[1], env).mono(ret) if ret is not None else "?"
        derivable = mw in ("+", "0") and ml in ("-", "0")
        ctx.ob(cls, derivable or not claims,
               "claims block-quality support only with a derivably monotone score",
               detail="d/dweight: %s, d/dlength: %s -- the bound _score(max weight, min length) is not derivably an "
                      "upper bound" % (mw, ml) if not derivable else "d/dweight: %s, d/dlength: %s" % (mw, ml),
               loc=f.loc)


POST_CTOR_OK = {
    # (function, class, attribute): why overwriting the attribute after construction is fine
    ("fields.merge_schema", "Schema", "_fields"): "starts from an empty Schema(): nothing was derived from the empty table yet",
    ("fields.merge_schema", "Schema", "_dyn_fields"): "same",
}


def _derived_inputs(prog, cls):
    """attributes that the constructor assigns and that are then read by a self-method the constructor calls (setup(), add(), ...):
    state the object derives other state from while it is being built"""
    init = prog.lookup(cls, "__init__")
    if init is None:
        return set()
    assigned = set()
    for st in ast.walk(init.node):
        if isinstance(st, ast.Assign):
            for t in st.targets:
                if isinstance(t, ast.Attribute) and isinstance(t.value, ast.Name) and t.value.id == "self":
                    assigned.add(t.attr)
    reads = set()
    seen = set()

    def walk(name):
        if name in seen:
            return
        seen.add(name)
        g = prog.lookup(cls, name)
        if g is None:
            return
        for x in ast.walk(g.node):
            if isinstance(x, ast.Attribute) and isinstance(x.ctx, ast.Load) and isinstance(x.value, ast.Name) and x.value.id == "self":
                reads.add(x.attr)
        for c in norm.calls_in(g.node):
            if isinstance(c.func, ast.Attribute) and isinstance(c.func.value, ast.Name) and c.func.value.id == "self":
                walk(c.func.attr)
    for c in norm.calls_in(init.node):
        if isinstance(c.func, ast.Attribute) and isinstance(c.func.value, ast.Name) and c.func.value.id == "self":
            walk(c.func.attr)
    return assigned & reads


@rule("C12", "R5", "K9", "what an object derived state from while being constructed is not overwritten from outside afterwards",
      min_instances=1, also=("C09", "C05"),
      clause="If a class's constructor assigns self.X and then calls a method of its own that reads self.X (a scorer's setup() computing its "
             "maximum quality from B and K1, ...), no code that has just constructed such an object assigns obj.X: the derived value "
             "(max_quality) would describe another formula than the one score() then uses.  Parameters go through the constructor.")
def c12_r5(ctx):
    prog = ctx.prog
    cache = {}
    n = 0
    for f in prog.functions.values():
        if f.module.name.startswith(("whoosh.lang", "whoosh.support")):
            continue
        stores = [(st, t) for st in ast.walk(f.node) if isinstance(st, (ast.Assign, ast.AugAssign))
                  for t in (st.targets if isinstance(st, ast.Assign) else [st.target])
                  if isinstance(t, ast.Attribute) and isinstance(t.value, ast.Name) and t.value.id not in ("self", "cls")]
        if not stores:
            continue
        an = norm.assigned_names(f.node)
        for st, t in stores:
            for val in [x for x in an.get(t.value.id, []) if x is not None]:
                if not isinstance(val, ast.Call) or not isinstance(val.func, (ast.Name, ast.Attribute)):
                    continue
                r = prog.resolve_in_func(f, val.func)
                if not r or r[0] != "class":
                    continue
                k = r[1]
                if k.qualname not in cache:
                    cache[k.qualname] = _derived_inputs(prog, k)
                n += 1
                if t.attr in cache[k.qualname] and (f.short, k.name, t.attr) not in POST_CTOR_OK:
                    ctx.saw(f)
                    ctx.ob(f, False, "`%s` does not overwrite what %s's constructor already derived other state from" % (norm.stmt_text(st)[:60], k.name),
                           detail="%s.__init__ assigns self.%s and then calls a method that reads it; assigning it afterwards leaves the "
                                  "derived state computed from the old value" % (k.name, t.attr), loc=ctx.nodeloc(f, st))
    ctx.ob("whole program", n >= 5, "%d attribute stores on freshly constructed project objects examined" % n)


@rule("C12", "R6", "K10", "skip_to_quality() answers with a count on every path",
      min_instances=12, also=("C05", "C11"),
      clause="For every matcher class that can be instantiated, the resolved skip_to_quality() leaves through a `return <expression>` "
             "on every normal path (no fall off the end, no bare return) and the expression is not a boolean or None literal: the "
             "collector adds the result to a counter, IntersectionMatcher and RequireMatcher read it as 'how many blocks were "
             "skipped' to decide whether the cursor still has to be stepped.")
def c12_r6(ctx):
    prog = ctx.prog
    from .common import constructed_names
    built = constructed_names(prog)
    seen = set()
    n = 0
    for K in M.matcher_classes(prog):
        if K.name not in built:
            continue        # an intermediate base class is judged through the classes that are actually constructed
        f = prog.lookup(K, "skip_to_quality")
        if f is None or f.qualname in seen or is_abstract_body(f):
            continue
        seen.add(f.qualname)
        n += 1
        ctx.saw(f)
        g = cfgmod.cfg_of(f, exc_edges=False)
        falls = [pr for pr, _ in g.exit.preds if pr.kind != "return"]
        rets = [x for x in g.nodes if x.kind == "return"]
        bad = []
        if falls:
            bad.append("a path falls off the end (returns None)")
        for r in rets:
            v = r.ast.value
            if v is None:
                bad.append("bare return")
            elif isinstance(v, ast.Constant) and (v.value is None or isinstance(v.value, bool)):
                bad.append("returns %r" % (v.value,))
        ctx.ob(f, not bad, "skip_to_quality() returns a count on every path", detail="; ".join(bad))
    if n < 12:
        raise AnalysisError("only %d skip_to_quality implementations of instantiable matchers" % n)


@rule("C12", "R7", "K2", "a composite skip_to_quality loop skips while the bound is <= the threshold and cannot spin",
      min_instances=4, also=("C05",),
      clause="Matcher.skip_to_quality(q) moves to the next block whose quality is GREATER than q; the leaves skip while "
             "block_quality() <= q.  Every loop in a skip_to_quality of whoosh/matching/binary.py that compares a quality bound "
             "with the threshold (a) continues on <= (a composite that stops at equality is called again and again by a parent that "
             "does not: DisjunctionMax over two unions never returned), and (b) has a way out when no sub-matcher moved -- a break "
             "(or a step with next()) under a test of the skipped count -- because the sum tested by the loop and the difference "
             "tested by the sub-matcher can disagree by floating-point rounding.")
def c12_r7(ctx):
    prog = ctx.prog
    mod = prog.module("matching.binary")
    n = 0
    for c in sorted(prog.classes.values(), key=lambda k: k.qualname):
        if c.module is not mod or "skip_to_quality" not in c.methods:
            continue
        f = c.methods["skip_to_quality"]
        thr = f.params[1] if len(f.params) > 1 else "minquality"
        for w in ast.walk(f.node):
            if not isinstance(w, ast.While):
                continue
            cmps = [x for x in ast.walk(w.test) if isinstance(x, ast.Compare) and len(x.ops) == 1
                    and thr in (norm.canon(x.left), norm.canon(x.comparators[0]))]
            if not cmps:
                continue
            n += 1
            ctx.saw(f)
            x = cmps[0]
            thr_right = norm.canon(x.comparators[0]) == thr
            op = type(x.ops[0]).__name__
            ok_a = (thr_right and op == "LtE") or ((not thr_right) and op == "GtE")
            ctx.ob(f, ok_a, "the loop continues while the quality bound is <= the threshold",
                   detail="" if ok_a else "`%s`: stops at equality although the contract (and every leaf) skips a block whose quality "
                                         "equals the threshold; a parent that tests <= calls again for ever" % norm.canon(x),
                   loc=ctx.nodeloc(f, x))
            # names that receive a skip count in the body
            counts = set()
            for st in ast.walk(w):
                if isinstance(st, (ast.Assign, ast.AugAssign)) and any(
                        norm.call_name(cc) == "skip_to_quality" for cc in norm.calls_in(st.value)):
                    for t in (st.targets if isinstance(st, ast.Assign) else [st.target]):
                        if isinstance(t, ast.Name):
                            counts.add(t.id)
            ok_b = False
            for st in ast.walk(w):
                if isinstance(st, ast.If):
                    tested = norm.names_in(st.test) & counts
                    leaves = any(isinstance(y, ast.Break) for b_ in st.body for y in ast.walk(b_)) or \
                        any(norm.call_name(cc) == "next" for b_ in st.body for cc in norm.calls_in(b_))
                    if tested and leaves:
                        ok_b = True
            ctx.ob(f, ok_b, "the loop has a way out when no sub-matcher moved",
                   detail="" if ok_b else "nothing in the body tests the count returned by the sub-matcher's skip_to_quality(): when the "
                                         "sub-matcher sees nothing to skip the loop condition stays true", loc=ctx.nodeloc(f, w))
    if n < 4:
        raise AnalysisError("only %d composite skip_to_quality loops found in matching.binary" % n)
