"""Case analysis of small straight-line/branching functions over a finite abstract domain.

Several wire-format rules compare a writer and a reader that both branch on the same small set of cases (the weights of
a block are None / one float / an array; the fixed value size is None / negative / zero / positive).  How the branches
are written (if/elif ladder, nested ifs, inverted tests, a cascade of rebinding `if`s) does not matter; what matters is
the table  case -> what is stored/returned.  `CaseEval` computes that table by abstract evaluation of the statement tree:

  * the caller supplies `absval(expr, env)` (abstract value of an expression; must return a hashable) and
    `decide(test, env)` (True / False / None=unknown) for atomic tests; `and`/`or`/`not`/conditional expressions and
    constants are handled here with short-circuit semantics;
  * assignments to names and attribute paths update the environment (keyed by canonical text);
  * an undecidable test runs both branches and merges (a name bound differently on the two sides becomes UNKNOWN);
  * loops are not iterated: every name they bind or mutate through a method call becomes OPAQUE("loop").

Nothing is executed; the domain is finite and every statement is visited at most twice per case.
"""

import ast

from . import norm

UNKNOWN = ("?",)
NORET = ("<falls off>",)


def OPAQUE(what):
    return ("opaque", what)


class CaseEval(object):
    def __init__(self, funcnode, absval, decide, resolve=None, depth=0, observe=None, tables=None):
        """resolve(call) -> the FunctionDef a call goes to (a module-level helper, a method of the same class), or None: such calls
        are evaluated by running the callee on the abstract values of the arguments (up to 3 levels)"""
        self.fn = funcnode
        self._absval = absval
        self._decide = decide
        self._resolve = resolve
        self._depth = depth
        self._observe = observe      # observe(expr, env, self) is called for every expression statement, in execution order
        self._tables = tables or {}  # module-level name -> literal tuple/list of rows: `for a, b in NAME:` is unrolled over it

    def _call(self, e, env):
        if self._resolve is None or self._depth >= 3 or e.keywords or any(isinstance(a, ast.Starred) for a in e.args):
            return None
        callee = self._resolve(e)
        if callee is None:
            return None
        params = [a.arg for a in callee.args.args]
        if params and params[0] in ("self", "cls") and isinstance(e.func, ast.Attribute):
            params = params[1:]
        if len(params) != len(e.args):
            return None
        env2 = dict((k, v) for k, v in env.items() if k.startswith("<"))
        for p, a in zip(params, e.args):
            env2[p] = self.value(a, env)
        _, ret = CaseEval(callee, self._absval, self._decide, self._resolve, self._depth + 1, tables=self._tables).run(env2)
        return None if ret is NORET else ret

    # ------------------------------------------------------------ expressions
    def value(self, e, env):
        if isinstance(e, ast.Name) and e.id in env:
            return env[e.id]
        key = norm.canon(e)
        if isinstance(e, (ast.Attribute, ast.Subscript)) and key in env:
            return env[key]
        if isinstance(e, ast.IfExp):
            d = self.truth(e.test, env)
            if d is True:
                return self.value(e.body, env)
            if d is False:
                return self.value(e.orelse, env)
            a, b = self.value(e.body, env), self.value(e.orelse, env)
            return a if a == b else UNKNOWN
        if isinstance(e, ast.Call):
            r = self._call(e, env)
            if r is not None:
                return r
        return self._absval(e, env, self)

    def truth(self, t, env):
        if isinstance(t, ast.Constant):
            return bool(t.value)
        if isinstance(t, ast.UnaryOp) and isinstance(t.op, ast.Not):
            d = self.truth(t.operand, env)
            return None if d is None else (not d)
        if isinstance(t, ast.BoolOp):
            conj = isinstance(t.op, ast.And)
            unknown = False
            for v in t.values:
                d = self.truth(v, env)
                if d is None:
                    unknown = True
                    continue
                if d != conj:
                    # a decided operand that ends the evaluation -- only sound if nothing before it was unknown,
                    # or if the result is the same whatever the unknown ones were (it is: False ends `and`)
                    return d
            return None if unknown else conj
        return self._decide(t, env, self)

    # ------------------------------------------------------------- statements
    def run(self, env):
        """-> (environment at the end of the function / at its return, return value or NORET)"""
        st, env2, ret = self._block(self.fn.body, dict(env))
        return env2, (ret if st == "ret" else NORET)

    def _assign(self, target, val, env):
        if isinstance(target, ast.Name):
            env[target.id] = val
        elif isinstance(target, (ast.Attribute, ast.Subscript)):
            env[norm.canon(target)] = val
        elif isinstance(target, (ast.Tuple, ast.List)):
            for e in target.elts:
                self._assign(e, UNKNOWN, env)

    def _loop_effects(self, loop, env):
        for n in ast.walk(loop):
            if isinstance(n, (ast.Assign, ast.AugAssign, ast.For)):
                tg = n.targets if isinstance(n, ast.Assign) else [n.target]
                for t in tg:
                    for x in ast.walk(t):
                        if isinstance(x, ast.Name):
                            env[x.id] = OPAQUE("loop")
                    if isinstance(t, (ast.Attribute, ast.Subscript)):
                        env[norm.canon(t)] = OPAQUE("loop")
            if isinstance(n, ast.Call) and isinstance(n.func, ast.Attribute) and isinstance(n.func.value, ast.Name):
                env[n.func.value.id] = OPAQUE("loop")

    def _block(self, stmts, env):
        for i, st in enumerate(stmts):
            if isinstance(st, ast.Return):
                return "ret", env, (self.value(st.value, env) if st.value is not None else ("const", None))
            if isinstance(st, ast.Raise):
                return "ret", env, ("raise",)
            if isinstance(st, ast.Assign):
                if isinstance(st.value, ast.Tuple) and all(isinstance(t, (ast.Tuple, ast.List)) and len(t.elts) == len(st.value.elts)
                                                           for t in st.targets):
                    vals = [self.value(x, env) for x in st.value.elts]   # all evaluated before any is bound
                    for t in st.targets:
                        for tt, v in zip(t.elts, vals):
                            self._assign(tt, v, env)
                else:
                    v = self.value(st.value, env)
                    for t in st.targets:
                        self._assign(t, v, env)
            elif isinstance(st, ast.AugAssign):
                # x op= e  is  x = x op e
                import copy
                left = copy.deepcopy(st.target)
                for n_ in ast.walk(left):
                    if hasattr(n_, "ctx"):
                        n_.ctx = ast.Load()
                try:
                    v = self.value(ast.copy_location(ast.BinOp(left=left, op=st.op, right=st.value), st), env)
                except Exception:
                    v = OPAQUE("aug")
                self._assign(st.target, v, env)
            elif isinstance(st, ast.For) and not st.orelse and isinstance(st.iter, ast.Name) and st.iter.id not in env \
                    and isinstance(self._tables.get(st.iter.id), (ast.Tuple, ast.List)) and len(self._tables[st.iter.id].elts) <= 16 \
                    and not any(isinstance(x, (ast.Break, ast.Continue)) for b_ in st.body for x in ast.walk(b_)):
                # a loop over a literal module-level table: run the body once per row, in order
                rows = self._tables[st.iter.id].elts
                for row in rows:
                    if isinstance(st.target, (ast.Tuple, ast.List)) and isinstance(row, (ast.Tuple, ast.List)) \
                            and len(row.elts) == len(st.target.elts):
                        for tt, rv in zip(st.target.elts, row.elts):
                            self._assign(tt, self.value(rv, env), env)
                    else:
                        self._assign(st.target, self.value(row, env), env)
                    kind, env_, ret_ = self._block(list(st.body), env)
                    if kind == "ret":
                        if ret_ is UNKNOWN:
                            return "ret", env_, UNKNOWN
                        return kind, env_, ret_
                    env = env_
            elif isinstance(st, (ast.For, ast.While)):
                self._loop_effects(st, env)
            elif isinstance(st, ast.If):
                d = self.truth(st.test, env)
                rest = stmts[i + 1:]
                if d is True:
                    return self._block(list(st.body) + rest, env)
                if d is False:
                    return self._block(list(st.orelse) + rest, env)
                a = self._block(list(st.body) + rest, dict(env))
                b = self._block(list(st.orelse) + rest, dict(env))
                return self._merge(a, b)
            elif isinstance(st, (ast.Try, ast.With)):
                r = self._block(list(st.body) + stmts[i + 1:], env)
                return r
            elif isinstance(st, ast.Expr) and self._observe is not None:
                self._observe(st.value, env, self)
            # Assert, Pass, nested defs: no effect on the tracked names
        return "fall", env, None

    @staticmethod
    def _merge(a, b):
        # a branch that raises contributes nothing to what is stored/returned
        if a[0] == "ret" and a[2] == ("raise",):
            return b
        if b[0] == "ret" and b[2] == ("raise",):
            return a
        env = {}
        for k in set(a[1] or {}) | set(b[1] or {}):
            va, vb = (a[1] or {}).get(k, UNKNOWN), (b[1] or {}).get(k, UNKNOWN)
            env[k] = va if va == vb else UNKNOWN
        if a[0] != b[0]:
            return "ret", env, UNKNOWN
        if a[0] == "ret":
            return "ret", env, (a[2] if a[2] == b[2] else UNKNOWN)
        return "fall", env, None


def const_of(e):
    """the python value of a literal (incl. negative numbers), or KeyError-free sentinel"""
    if isinstance(e, ast.Constant):
        return True, e.value
    if isinstance(e, ast.UnaryOp) and isinstance(e.op, ast.USub) and isinstance(e.operand, ast.Constant) \
            and isinstance(e.operand.value, (int, float)):
        return True, -e.operand.value
    return False, None


def compare_concrete(t, lookup):
    """Decide a Compare whose operands are literals or expressions `lookup(expr)` maps to a concrete representative
    (lookup returns (True, value) or (False, None)).  Ordering comparisons involving None are undecided."""
    if not isinstance(t, ast.Compare) or len(t.ops) != 1:
        return None
    vals = []
    for e in (t.left, t.comparators[0]):
        ok, v = const_of(e)
        if not ok:
            ok, v = lookup(e)
        if not ok:
            return None
        vals.append(v)
    a, b = vals
    op = t.ops[0]
    if isinstance(op, ast.Is):
        return a is b if (a is None or b is None) else None
    if isinstance(op, ast.IsNot):
        return a is not b if (a is None or b is None) else None
    if isinstance(op, ast.Eq):
        return a == b
    if isinstance(op, ast.NotEq):
        return a != b
    if a is None or b is None:
        return None
    if isinstance(op, ast.Lt):
        return a < b
    if isinstance(op, ast.LtE):
        return a <= b
    if isinstance(op, ast.Gt):
        return a > b
    if isinstance(op, ast.GtE):
        return a >= b
    return None


def symbolic(funcnode, opaque_calls=()):
    """Forward substitution through a function body: returns (env, ret) where every tracked name / attribute path maps to
    ("sym", <canonical text of its value in terms of the parameters and untracked paths>) or UNKNOWN where paths disagree.
    Tests are not decided (both branches are followed and merged)."""
    class _Sub(ast.NodeTransformer):
        def __init__(self, env):
            self.env = env

        def _lookup(self, key, node):
            v = self.env.get(key)
            if v is None:
                return None
            if v[0] == "sym":
                return norm.parse_expr(v[1])
            return ast.Name(id="UNKNOWN", ctx=ast.Load())

        def visit_Name(self, n):
            if isinstance(n.ctx, ast.Load):
                r = self._lookup(n.id, n)
                if r is not None:
                    return r
            return n

        def visit_Attribute(self, n):
            if isinstance(n.ctx, ast.Load):
                r = self._lookup(norm.canon(n), n)
                if r is not None:
                    return r
            self.generic_visit(n)
            return n

    import copy

    def absval(e, env, ev):
        return ("sym", norm.canon(_Sub(env).visit(copy.deepcopy(e))))

    def decide(t, env, ev):
        return None
    return CaseEval(funcnode, absval, decide).run({})


def sym_absval(e, env, ev=None):
    """abstract value = canonical text of `e` with every tracked name replaced by the text of its current value"""
    import copy

    class _S(ast.NodeTransformer):
        def _lookup(self, key):
            v = env.get(key)
            if v is None:
                return None
            if v[0] == "sym":
                return norm.parse_expr(v[1])
            return ast.Name(id="UNKNOWN", ctx=ast.Load())

        def visit_Name(self, n):
            if isinstance(n.ctx, ast.Load):
                r = self._lookup(n.id)
                if r is not None:
                    return r
            return n

        def visit_Attribute(self, n):
            if isinstance(n.ctx, ast.Load):
                r = self._lookup(norm.canon(n))
                if r is not None:
                    return r
            self.generic_visit(n)
            return n
    return ("sym", norm.canon(_S().visit(copy.deepcopy(e))))


def path_text(e, env):
    """canonical text of an access path, with locals that merely hold another path (`d = self._data; d[1]`) expanded"""
    if isinstance(e, ast.Name):
        v = env.get(e.id)
        if v is not None and v[0] == "path":
            return v[1]
        return e.id
    if isinstance(e, ast.Attribute):
        return path_text(e.value, env) + "." + e.attr
    if isinstance(e, ast.Subscript):
        return path_text(e.value, env) + "[" + norm.canon(e.slice) + "]"
    return norm.canon(e)


def is_plain_path(e):
    while isinstance(e, ast.Attribute):
        e = e.value
    return isinstance(e, ast.Name)
