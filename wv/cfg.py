"""E2 -- per-function control-flow graph over the statement kinds whoosh uses,
with dominators, forward dataflow and path extraction.

Nodes are simple statements and branch tests.  Short-circuit `and`/`or`/`not`
in `if`/`while`/`assert` tests are split into one test node per operand, so a
fact established by an earlier conjunct guards the later ones.

Edge labels:  None (sequential), ("T", expr) / ("F", expr) for the outcome of
a test expression, "exc" for an exceptional transfer into a handler/finally,
"iter"/"done" for loop heads.
"""

import ast


class Node(object):
    __slots__ = ("id", "kind", "ast", "succs", "preds", "lineno", "ctx")

    def __init__(self, id, kind, astnode, ctx=None):
        self.id = id
        self.kind = kind  # entry exit raise stmt test for with_enter with_exit except_entry return raise_stmt assert
        self.ast = astnode
        self.succs = []  # (node, label)
        self.preds = []  # (node, label)
        self.lineno = getattr(astnode, "lineno", 0)
        self.ctx = ctx  # tuple of enclosing `with` item expressions (for lock-set rules)

    def __repr__(self):
        try:
            txt = ast.unparse(self.ast)[:50] if self.ast is not None and self.kind not in ("for",) else self.kind
        except Exception:
            txt = self.kind
        return "<N%d %s %s>" % (self.id, self.kind, txt)


SIMPLE = (ast.Expr, ast.Assign, ast.AugAssign, ast.AnnAssign, ast.Pass, ast.Delete,
          ast.Import, ast.ImportFrom, ast.Global, ast.Nonlocal, ast.FunctionDef,
          ast.AsyncFunctionDef, ast.ClassDef)


class CFG(object):
    def __init__(self, funcnode, exc_edges=True):
        """exc_edges: add an "exc" edge from every statement inside a `try`
        body that contains a call/raise/subscript to each handler (and to the
        exceptional copy of `finally`)."""
        self.func = funcnode
        self.nodes = []
        self.exc_edges = exc_edges
        self.entry = self._new("entry", None)
        self.exit = self._new("exit", None)  # normal return / fallthrough
        self.raise_exit = self._new("raise", None)  # uncaught raise
        self._with_stack = ()
        self._fin_stack = []
        frontier = self._body(funcnode.body, [(self.entry, None)],
                              loop=None, handlers=[])
        self._connect(frontier, self.exit)

    # -- construction helpers
    def _new(self, kind, astnode):
        n = Node(len(self.nodes), kind, astnode, getattr(self, "_with_stack", ()))
        self.nodes.append(n)
        return n

    def _edge(self, a, b, label=None):
        a.succs.append((b, label))
        b.preds.append((a, label))

    def _connect(self, frontier, node):
        for (a, label) in frontier:
            self._edge(a, node, label)

    def _may_raise(self, st):
        for x in ast.walk(st):
            if isinstance(x, (ast.Call, ast.Raise, ast.Subscript, ast.Attribute, ast.Assert)):
                return True
        return False

    def _exc_target(self, handlers):
        """Where an exception raised here goes: innermost handler set."""
        return handlers[-1] if handlers else None

    def _raise_to(self, node, handlers, label="exc"):
        tgt = self._exc_target(handlers)
        if tgt is None:
            self._edge(node, self.raise_exit, label)
        else:
            for h in tgt:
                self._edge(node, h, label)

    # frontier: list of (node, label) dangling edges
    def _body(self, stmts, frontier, loop, handlers):
        for st in stmts:
            if not frontier:
                # unreachable code after return/raise; still build it detached
                frontier = []
            frontier = self._stmt(st, frontier, loop, handlers)
        return frontier

    def _test(self, expr, frontier, handlers):
        """Build test nodes for `expr`; returns (true_frontier, false_frontier)."""
        if isinstance(expr, ast.BoolOp):
            if isinstance(expr.op, ast.And):
                false_f = []
                cur = frontier
                for v in expr.values:
                    t, f = self._test(v, cur, handlers)
                    false_f.extend(f)
                    cur = t
                return cur, false_f
            else:
                true_f = []
                cur = frontier
                for v in expr.values:
                    t, f = self._test(v, cur, handlers)
                    true_f.extend(t)
                    cur = f
                return true_f, cur
        if isinstance(expr, ast.UnaryOp) and isinstance(expr.op, ast.Not):
            t, f = self._test(expr.operand, frontier, handlers)
            return f, t
        if isinstance(expr, ast.IfExp):
            # `X if T else Y` as a test: T decides which of X / Y is the test
            tt, tf = self._test(expr.test, frontier, handlers)
            bt, bf = self._test(expr.body, tt, handlers)
            ot, of = self._test(expr.orelse, tf, handlers)
            return bt + ot, bf + of
        n = self._new("test", expr)
        self._connect(frontier, n)
        if self.exc_edges and handlers and self._may_raise(expr):
            self._raise_to(n, handlers)
        if isinstance(expr, ast.Constant):
            if expr.value:
                return [(n, ("T", expr))], []
            return [], [(n, ("F", expr))]
        return [(n, ("T", expr))], [(n, ("F", expr))]

    def _stmt(self, st, frontier, loop, handlers):
        if isinstance(st, SIMPLE):
            n = self._new("stmt", st)
            self._connect(frontier, n)
            if self.exc_edges and handlers and self._may_raise(st):
                self._raise_to(n, handlers)
            return [(n, None)]
        if isinstance(st, ast.Return):
            n = self._new("return", st)
            self._connect(frontier, n)
            if self.exc_edges and handlers and st.value is not None and self._may_raise(st):
                self._raise_to(n, handlers)
            cur = [(n, None)]
            # a return inside try/finally runs every enclosing finally body
            for (fb, outer_handlers) in reversed(self._fin_stack):
                cur = self._body(fb, cur, None, outer_handlers)
            self._connect(cur, self.exit)
            return []
        if isinstance(st, ast.Raise):
            n = self._new("raise_stmt", st)
            self._connect(frontier, n)
            self._raise_to(n, handlers, "exc")
            return []
        if isinstance(st, ast.Assert):
            t, f = self._test(st.test, frontier, handlers)
            n = self._new("assert_fail", st)
            self._connect(f, n)
            self._raise_to(n, handlers, "exc")
            return t
        if isinstance(st, ast.If):
            t, f = self._test(st.test, frontier, handlers)
            a = self._body(st.body, t, loop, handlers)
            b = self._body(st.orelse, f, loop, handlers) if st.orelse else f
            return a + b
        if isinstance(st, ast.While):
            head = self._new("loop_head", st)
            self._connect(frontier, head)
            t, f = self._test(st.test, [(head, None)], handlers)
            lp = {"head": head, "breaks": []}
            body_end = self._body(st.body, t, lp, handlers)
            self._connect(body_end, head)
            out = self._body(st.orelse, f, loop, handlers) if st.orelse else f
            return out + lp["breaks"]
        if isinstance(st, (ast.For, ast.AsyncFor)):
            it = self._new("stmt", ast.Expr(value=st.iter, lineno=st.lineno, col_offset=st.col_offset))
            it.kind = "iter_init"
            self._connect(frontier, it)
            if self.exc_edges and handlers:
                self._raise_to(it, handlers)
            head = self._new("for", st)
            self._edge(it, head, None)
            if self.exc_edges and handlers:
                self._raise_to(head, handlers)
            lp = {"head": head, "breaks": []}
            body_end = self._body(st.body, [(head, "iter")], lp, handlers)
            self._connect(body_end, head)
            f = [(head, "done")]
            out = self._body(st.orelse, f, loop, handlers) if st.orelse else f
            return out + lp["breaks"]
        if isinstance(st, ast.Break):
            n = self._new("stmt", st)
            self._connect(frontier, n)
            if loop is not None:
                loop["breaks"].append((n, None))
            return []
        if isinstance(st, ast.Continue):
            n = self._new("stmt", st)
            self._connect(frontier, n)
            if loop is not None:
                self._edge(n, loop["head"], None)
            return []
        if isinstance(st, (ast.With, ast.AsyncWith)):
            n = self._new("with_enter", st)
            self._connect(frontier, n)
            if self.exc_edges and handlers:
                self._raise_to(n, handlers)
            old = self._with_stack
            self._with_stack = old + tuple(i.context_expr for i in st.items)
            out = self._body(st.body, [(n, None)], loop, handlers)
            self._with_stack = old
            x = self._new("with_exit", st)
            self._connect(out, x)
            return [(x, None)]
        if isinstance(st, ast.Try):
            return self._try(st, frontier, loop, handlers)
        if hasattr(ast, "Match") and isinstance(st, ast.Match):
            n = self._new("stmt", st)
            self._connect(frontier, n)
            return [(n, None)]
        # unknown statement kind: treat as simple
        n = self._new("stmt", st)
        self._connect(frontier, n)
        return [(n, None)]

    def _try(self, st, frontier, loop, handlers):
        has_finally = bool(st.finalbody)
        # exceptional entry of finally (re-raises afterwards)
        fin_exc_entry = None
        outer = handlers
        if has_finally:
            fin_exc_entry = self._new("finally_exc", st)
        # handler entries
        hentries = []
        for h in st.handlers:
            hn = self._new("except_entry", h)
            hentries.append(hn)
        catch_all = any(h.type is None or (isinstance(h.type, ast.Name) and h.type.id in ("Exception", "BaseException"))
                        for h in st.handlers)
        inner_targets = list(hentries)
        if not catch_all:
            # exception may not match any handler: goes to finally / outward
            if has_finally:
                inner_targets.append(fin_exc_entry)
            else:
                tgt = self._exc_target(outer)
                if tgt is None:
                    inner_targets.append(self.raise_exit)
                else:
                    inner_targets.extend(tgt)
        body_handlers = outer + [inner_targets]
        if has_finally:
            self._fin_stack.append((st.finalbody, outer))
        body_end = self._body(st.body, frontier, loop, body_handlers)
        if st.orelse:
            # exceptions in else are not caught by this try's handlers
            else_handlers = outer + ([[fin_exc_entry]] if has_finally else [])
            body_end = self._body(st.orelse, body_end, loop, else_handlers)
        ends = list(body_end)
        h_handlers = outer + ([[fin_exc_entry]] if has_finally else [])
        for h, hn in zip(st.handlers, hentries):
            ends.extend(self._body(h.body, [(hn, None)], loop, h_handlers))
        if has_finally:
            self._fin_stack.pop()
            # normal copy
            out = self._body(st.finalbody, ends, loop, outer)
            # exceptional copy
            exc_end = self._body(st.finalbody, [(fin_exc_entry, None)], loop, outer)
            for (a, label) in exc_end:
                tgt = self._exc_target(outer)
                if tgt is None:
                    self._edge(a, self.raise_exit, "exc")
                else:
                    for t in tgt:
                        self._edge(a, t, "exc")
            return out
        return ends

    # -- queries
    def reachable(self, start=None):
        start = start or self.entry
        seen = set()
        stack = [start]
        while stack:
            n = stack.pop()
            if n.id in seen:
                continue
            seen.add(n.id)
            for (s, _) in n.succs:
                stack.append(s)
        return seen

    def dominators(self):
        """node id -> set of node ids that dominate it (reachable nodes only)."""
        reach = self.reachable()
        ids = sorted(reach)
        full = set(ids)
        dom = {i: set(full) for i in ids}
        dom[self.entry.id] = {self.entry.id}
        changed = True
        order = ids
        while changed:
            changed = False
            for i in order:
                if i == self.entry.id:
                    continue
                n = self.nodes[i]
                ps = [p.id for (p, _) in n.preds if p.id in reach]
                if not ps:
                    new = {i}
                else:
                    new = set(dom[ps[0]])
                    for p in ps[1:]:
                        new &= dom[p]
                    new.add(i)
                if new != dom[i]:
                    dom[i] = new
                    changed = True
        return dom

    def stmts_matching(self, pred):
        return [n for n in self.nodes if n.ast is not None and pred(n)]


def forward(cfg, init, transfer, edge_transfer=None, meet=None, include_exc=True):
    """Generic forward dataflow.  States must be hashable-comparable values.

    init: state at entry.  transfer(node, state_in) -> state_out.
    edge_transfer(src, label, dst, state) -> state (or None to kill the edge).
    meet(a, b) -> state (default: set intersection = must analysis).
    Returns (state_in, state_out) dicts keyed by node id (None = unreachable).
    """
    if meet is None:
        meet = lambda a, b: a & b
    n = len(cfg.nodes)
    sin = [None] * n
    sout = [None] * n
    sin[cfg.entry.id] = init
    work = [cfg.entry]
    inwork = {cfg.entry.id}
    iters = 0
    while work:
        iters += 1
        if iters > 200000:
            raise RuntimeError("dataflow did not converge")
        node = work.pop(0)
        inwork.discard(node.id)
        s = sin[node.id]
        if s is None:
            continue
        out = transfer(node, s)
        sout[node.id] = out
        for (succ, label) in node.succs:
            if label == "exc" and not include_exc:
                continue
            st = out
            if label == "exc":
                # an exception may occur before the statement's effect
                st = meet(s, out) if out is not None else s
            if edge_transfer is not None:
                st = edge_transfer(node, label, succ, st)
                if st is None:
                    continue
            old = sin[succ.id]
            new = st if old is None else meet(old, st)
            if old is None or new != old:
                sin[succ.id] = new
                if succ.id not in inwork:
                    work.append(succ)
                    inwork.add(succ.id)
    return sin, sout


def find_path(cfg, start, goal_pred, avoid_pred=None, include_exc=False):
    """BFS for a path start -> node satisfying goal_pred that avoids nodes
    satisfying avoid_pred.  Returns list of nodes or None."""
    from collections import deque
    q = deque([(start, (start,))])
    seen = {start.id}
    while q:
        n, path = q.popleft()
        if n is not start and goal_pred(n):
            return list(path)
        for (s, label) in n.succs:
            if label == "exc" and not include_exc:
                continue
            if s.id in seen:
                continue
            if avoid_pred is not None and avoid_pred(s) and not goal_pred(s):
                continue
            seen.add(s.id)
            q.append((s, path + (s,)))
    return None


def path_text(path, limit=12):
    out = []
    for n in path:
        if n.ast is None:
            out.append(n.kind)
            continue
        try:
            if n.kind == "for":
                t = "for %s in %s" % (ast.unparse(n.ast.target), ast.unparse(n.ast.iter))
            elif n.kind in ("with_enter", "with_exit"):
                t = n.kind + " " + ", ".join(ast.unparse(i.context_expr) for i in n.ast.items)
            elif n.kind in ("loop_head",):
                t = "while " + ast.unparse(n.ast.test)
            elif n.kind in ("except_entry",):
                t = "except " + (ast.unparse(n.ast.type) if n.ast.type is not None else "")
            elif n.kind in ("finally_exc",):
                t = "finally"
            elif n.kind == "assert_fail":
                t = "assert-fails " + ast.unparse(n.ast.test)
            else:
                t = ast.unparse(n.ast)
        except Exception:
            t = n.kind
        t = " ".join(t.split())
        if len(t) > 70:
            t = t[:67] + "..."
        out.append("L%d: %s" % (n.lineno, t))
    if len(out) > limit:
        out = out[:limit // 2] + ["..."] + out[-limit // 2:]
    return out


def node_exprs(n):
    """AST fragments a CFG node evaluates itself (headers only for compound
    statements; nested function/class bodies are never included)."""
    a = n.ast
    if a is None:
        return []
    k = n.kind
    if k in ("stmt", "return", "raise_stmt", "test", "iter_init"):
        if isinstance(a, (ast.FunctionDef, ast.AsyncFunctionDef, ast.ClassDef)):
            return list(a.decorator_list)
        return [a]
    if k == "with_enter":
        return [i.context_expr for i in a.items]
    if k == "for":
        return [a.target]
    if k == "assert_fail":
        return [a.msg] if a.msg is not None else []
    return []


_cfg_cache = {}


def cfg_of(funcinfo, exc_edges=True):
    key = (id(funcinfo.node), exc_edges)
    c = _cfg_cache.get(key)
    if c is None:
        c = CFG(funcinfo.node, exc_edges)
        _cfg_cache[key] = c
    return c
