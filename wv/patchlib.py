"""Minimal in-memory unified-diff applier (used by the sensitivity self-test).

A patch is turned into per-file lists of (old_block, new_block); applying means
replacing each old_block (located by its text, not by line number, so unrelated
edits elsewhere in the file do not matter) by new_block.  `reverse=True`
swaps the roles.  Returns None when a block cannot be located exactly once.
"""

import re


def parse(patch_text):
    """-> {relpath: [(old_lines, new_lines)]}  (relpath as in 'src/whoosh/x.py')"""
    files = {}
    cur = None
    hunk = None
    for line in patch_text.splitlines():
        if line.startswith("diff --git"):
            cur = None
            hunk = None
            continue
        if line.startswith("+++ "):
            p = line[4:].strip()
            if p.startswith("b/"):
                p = p[2:]
            cur = files.setdefault(p, [])
            hunk = None
            continue
        if line.startswith("--- "):
            continue
        if line.startswith("@@"):
            if cur is None:
                continue
            m = re.match(r"@@ -(\d+)(?:,\d+)? \+(\d+)", line)
            hunk = ([], [], int(m.group(1)) if m else 0, int(m.group(2)) if m else 0)
            cur.append(hunk)
            continue
        if hunk is None or cur is None:
            continue
        if line.startswith("+"):
            hunk[1].append(line[1:])
        elif line.startswith("-"):
            hunk[0].append(line[1:])
        elif line.startswith(" ") or line == "":
            hunk[0].append(line[1:] if line else "")
            hunk[1].append(line[1:] if line else "")
        elif line.startswith("\\"):
            continue
    return files


def _trim(old, new):
    """Drop leading/trailing context lines common to both blocks until the block is unique enough."""
    return old, new


def apply_hunks(text, hunks, reverse=False):
    lines = text.split("\n")
    for h in hunks:
        old, new = h[0], h[1]
        hint = (h[2] if len(h) > 2 else 0)
        if reverse:
            old, new = new, old
            hint = (h[3] if len(h) > 3 else 0)
        # try with decreasing amounts of surrounding context
        done = False
        lo, hi = 0, 0
        while True:
            o = old[lo:len(old) - hi] if hi else old[lo:]
            n = new[lo:len(new) - hi] if hi else new[lo:]
            if not o:
                break
            hits = [i for i in range(len(lines) - len(o) + 1) if lines[i:i + len(o)] == o]
            if len(hits) == 1:
                i = hits[0]
                lines[i:i + len(o)] = n
                done = True
                break
            if len(hits) > 1:
                # several identical blocks: take the one nearest to where the hunk header says it is
                i = min(hits, key=lambda x: abs((x + 1) - (hint + lo)))
                lines[i:i + len(o)] = n
                done = True
                break
            # no hit: shrink the context from whichever end still has common lines
            if lo < len(old) and lo < len(new) and old[lo] == new[lo] and (hi >= len(old) - lo - 1 or lo <= hi):
                lo += 1
            elif hi < len(old) - lo and old[len(old) - 1 - hi] == new[len(new) - 1 - hi]:
                hi += 1
            else:
                break
        if not done:
            return None
    return "\n".join(lines)


def overlay_for(src_root, patch_text, reverse=False):
    """-> {relpath relative to src_root: new text} or None if the patch does not apply."""
    import os
    files = parse(patch_text)
    out = {}
    for p, hunks in files.items():
        if not p.startswith("src/"):
            continue
        rel = p[len("src/"):]
        path = os.path.join(src_root, rel)
        if not os.path.exists(path):
            return None
        with open(path, "rb") as f:
            text = f.read().decode("utf-8", "replace").replace("\r\n", "\n")
        new = apply_hunks(text, hunks, reverse)
        if new is None:
            return None
        out[rel] = new
    return out or None
