"""E7 -- shape algebra for scores, quality bounds and thresholds.

A tiny symbolic executor over loop-free matcher methods: every CFG path yields
(path condition, returned term).  Terms:

  ("atom", kind, child)      kind in S (score) W (weight) MQ (max_quality) BQ (block_quality)
  ("sum", (t1, t2, ...))     flattened, order-insensitive
  ("max", (t1, t2, ...))
  ("scale", factor_text, t)
  ("const", text)
  ("all", op, kind, coll, filtered)   sum/max of kind over every element of an n-ary child collection
  ("apply", fn, t, extra_text)        a monotone function of t (table below), e.g. CoordMatcher._sqr
  ("thr", minus_terms, div_text)      minquality - sum(minus_terms) [/ div]
  ("unknown", text)

Ordering  a >= b  ("a is an upper bound of b, all atoms being >= 0"):
  atom(MQ|BQ, x) >= atom(S, x);  sum(A) >= sum(B) if every member of B is bounded by a distinct member of A;
  sum(A) >= max(B) if each member of B is bounded by a member of A;  max(A) >= max(B) likewise;
  max(A) >= t if some member of A bounds t;  scale(f, a) >= scale(f, b) if a >= b;  const c >= const c.
"""

import ast

from . import cfg as cfgmod
from . import norm

KIND_OF_CALL = {"score": "S", "weight": "W", "max_quality": "MQ", "block_quality": "BQ"}
CHILD_ATTRS = ("a", "b", "child")
# monotone (non-decreasing in the first argument) helper functions of matcher classes
MONOTONE_HELPERS = {"_sqr"}


def T_atom(kind, child):
    return ("atom", kind, child)


def T_sum(parts):
    flat = []
    for p in parts:
        if p[0] == "sum":
            flat.extend(p[1])
        elif p == ("const", "0") or p == ("const", "0.0"):
            continue
        else:
            flat.append(p)
    if not flat:
        return ("const", "0")
    if len(flat) == 1:
        return flat[0]
    return ("sum", tuple(sorted(flat, key=repr)))


def T_max(parts):
    flat = []
    for p in parts:
        if p[0] == "max":
            flat.extend(p[1])
        else:
            flat.append(p)
    if len(flat) == 1:
        return flat[0]
    return ("max", tuple(sorted(flat, key=repr)))


def show(t):
    k = t[0]
    if k == "atom":
        return "%s(%s)" % (t[1], t[2])
    if k == "sum":
        return "Sum{%s}" % ", ".join(show(x) for x in t[1])
    if k == "max":
        return "Max{%s}" % ", ".join(show(x) for x in t[1])
    if k == "scale":
        return "Scale(%s, %s)" % (t[1], show(t[2]))
    if k == "const":
        return "Const(%s)" % t[1]
    if k == "all":
        return "%s{%s(m) for m in %s%s}" % (t[1].capitalize(), t[2], t[3], " if active" if t[4] else "")
    if k == "apply":
        return "%s(%s, %s)" % (t[1], show(t[2]), t[3])
    if k == "thr":
        s = "minq"
        if t[1]:
            s += " - " + " - ".join(show(x) for x in t[1])
        if t[2]:
            s = "(%s) / %s" % (s, t[2])
        return s
    return "?(%s)" % (t[1],)


class Sym(object):
    """Symbolic evaluation of expressions of one method into shape terms."""

    def __init__(self, func, minq_names=("minquality",)):
        self.func = func
        self.al = norm.aliases(func.node)
        self.minq = set(minq_names)

    def _extra(self, a):
        """text of a non-score argument of a monotone helper; a local that only counts the
        iterations of a loop over matching_terms(...) is named by what it counts."""
        if isinstance(a, ast.Name):
            fn = self.func.node
            d = norm.definitions(fn).get(a.id)
            if isinstance(d, ast.Call) and norm.call_name(d) == "sum" and len(d.args) == 1 and isinstance(d.args[0], ast.GeneratorExp) \
                    and isinstance(d.args[0].elt, ast.Constant) and d.args[0].elt.value == 1 and not d.args[0].generators[0].ifs \
                    and any(norm.call_name(c) == "matching_terms" for c in norm.calls_in(d.args[0].generators[0].iter)) and a.id not in self.func.params:
                return "<count of matching_terms>"
            binds = [st for st in ast.walk(fn) if (isinstance(st, ast.Assign) and any(isinstance(t, ast.Name) and t.id == a.id for t in st.targets))
                     or (isinstance(st, ast.AugAssign) and isinstance(st.target, ast.Name) and st.target.id == a.id)]
            inits = [st for st in binds if isinstance(st, ast.Assign)]
            incs = [st for st in binds if isinstance(st, ast.AugAssign)]
            loops = [lp for lp in ast.walk(fn) if isinstance(lp, ast.For) and any(x is i for i in incs for x in lp.body)
                     and any(norm.call_name(c) == "matching_terms" for c in norm.calls_in(lp.iter))]
            if len(inits) == 1 and isinstance(inits[0].value, ast.Constant) and inits[0].value.value == 0 and len(incs) == 1 \
                    and isinstance(incs[0].op, ast.Add) and isinstance(incs[0].value, ast.Constant) and incs[0].value.value == 1 \
                    and len(loops) == 1 and a.id not in self.func.params:
                return "<count of matching_terms>"
        return norm.canon(a, self.al)

    def child_of(self, expr, env):
        e = expr
        if isinstance(e, ast.Name) and e.id in env and env[e.id][0] == "childref":
            return env[e.id][1]
        t = norm.canon(e, self.al)
        if t.startswith("self.") and t.count(".") == 1 and t.split(".")[1] in CHILD_ATTRS:
            return t.split(".")[1]
        return None

    def ev(self, e, env):
        if isinstance(e, ast.Constant):
            return ("const", repr(e.value) if not isinstance(e.value, (int, float)) else str(e.value))
        if isinstance(e, ast.Name):
            if e.id in env:
                return env[e.id]
            if e.id in self.minq:
                return ("thr", (), None)
            if e.id in self.al:
                return self.ev(self.al[e.id], env)
            return ("unknown", e.id)
        if isinstance(e, ast.Attribute):
            t = norm.canon(e, self.al)
            ch = self.child_of(e, env)
            if ch:
                return ("childref", ch)
            return ("const", t)
        if isinstance(e, ast.Subscript):
            base = norm.canon(e.value, self.al)
            if base.startswith("self._") and base.count(".") == 1:
                return ("atom", "BUF", base.split(".")[1])
            return ("unknown", norm.canon(e, self.al))
        if isinstance(e, ast.Call):
            nm = norm.call_name(e)
            if isinstance(e.func, ast.Name) and nm == "max" and len(e.args) == 1:
                a0 = e.args[0]
                if isinstance(a0, ast.Subscript):
                    a0 = a0.value
                base = norm.canon(a0, self.al)
                if base.startswith("self._") and base.count(".") == 1 and not isinstance(e.args[0], (ast.GeneratorExp, ast.ListComp)):
                    return ("atom", "BUFMAX", base.split(".")[1])
            if isinstance(e.func, ast.Attribute):
                ch = self.child_of(e.func.value, env)
                if ch and nm in KIND_OF_CALL and not e.args:
                    return T_atom(KIND_OF_CALL[nm], ch)
                if ch and nm == "replace":
                    # the replacement stands for the same child (same remaining entries)
                    return ("childref", ch)
                if norm.canon(e.func.value) == "self" and nm in MONOTONE_HELPERS and e.args:
                    return ("apply", nm, self.ev(e.args[0], env), ", ".join(self._extra(a) for a in e.args[1:]))
                if norm.canon(e.func.value) == "self" and nm in KIND_OF_CALL and not e.args:
                    return T_atom(KIND_OF_CALL[nm], "self")
            if isinstance(e.func, ast.Name) and nm in ("max", "sum") and e.args:
                if len(e.args) == 1 and isinstance(e.args[0], (ast.GeneratorExp, ast.ListComp)):
                    g = e.args[0]
                    gen = g.generators[0]
                    coll = norm.canon(gen.iter, self.al)
                    var = gen.target.id if isinstance(gen.target, ast.Name) else None
                    elt = g.elt
                    kind = None
                    if isinstance(elt, ast.Call) and isinstance(elt.func, ast.Attribute) and \
                            isinstance(elt.func.value, ast.Name) and elt.func.value.id == var:
                        kind = KIND_OF_CALL.get(elt.func.attr)
                    filtered = any("is_active()" in norm.canon(c) for c in gen.ifs)
                    if kind:
                        return ("all", nm, kind, coll, filtered)
                    return ("unknown", norm.canon(e, self.al))
                parts = [self.ev(a, env) for a in e.args]
                return T_max(parts) if nm == "max" else T_sum(parts)
            return ("unknown", norm.canon(e, self.al))
        if isinstance(e, ast.BinOp):
            l = self.ev(e.left, env)
            r = self.ev(e.right, env)
            if isinstance(e.op, ast.Add):
                if l[0] == "thr" or r[0] == "thr":
                    return ("unknown", norm.canon(e, self.al))
                return T_sum([l, r])
            if isinstance(e.op, ast.Sub):
                if l[0] == "thr" and l[2] is None:
                    minus = list(l[1])
                    if r[0] == "sum":
                        minus.extend(r[1])
                    else:
                        minus.append(r)
                    return ("thr", tuple(sorted(minus, key=repr)), None)
                return ("unknown", norm.canon(e, self.al))
            if isinstance(e.op, ast.Mult):
                for x, y in ((l, r), (r, l)):
                    if y[0] == "const" and x[0] not in ("const", "unknown", "thr"):
                        return ("scale", y[1], x)
                return ("unknown", norm.canon(e, self.al))
            if isinstance(e.op, ast.Div):
                if l[0] == "thr" and l[2] is None and r[0] == "const":
                    return ("thr", l[1], r[1])
                return ("unknown", norm.canon(e, self.al))
            return ("unknown", norm.canon(e, self.al))
        if isinstance(e, ast.IfExp):
            return ("choice", self.ev(e.body, env), self.ev(e.orelse, env), norm.canon(e.test, self.al))
        if isinstance(e, ast.BoolOp) and isinstance(e.op, ast.Or) and len(e.values) == 2:
            # `minscore or 0`
            l = self.ev(e.values[0], env)
            r = self.ev(e.values[1], env)
            return ("choice", l, r, "truthy(%s)" % norm.canon(e.values[0], self.al))
        return ("unknown", norm.canon(e, self.al))


def paths(func, max_paths=400):
    """Enumerate loop-free CFG paths entry -> return of `func`.

    Yields (conds, env, ret_node) where conds is a list of (pol, canon text)
    and env maps local names to shape terms after executing the path.  Loops
    are cut (a back edge is followed at most once)."""
    g = cfgmod.cfg_of(func)
    sym = Sym(func)
    al = sym.al
    out = []

    def step(node, env):
        a = node.ast
        if node.kind == "stmt" and isinstance(a, ast.Assign) and len(a.targets) == 1:
            t = a.targets[0]
            if isinstance(t, ast.Name):
                env = dict(env)
                env[t.id] = sym.ev(a.value, env)
            elif isinstance(t, ast.Tuple) and isinstance(a.value, ast.Tuple) and len(t.elts) == len(a.value.elts):
                env = dict(env)
                for tt, vv in zip(t.elts, a.value.elts):
                    if isinstance(tt, ast.Name):
                        env[tt.id] = sym.ev(vv, env)
        elif node.kind == "stmt" and isinstance(a, ast.Assign) and all(isinstance(t, ast.Name) for t in a.targets):
            env = dict(env)
            v = sym.ev(a.value, env)
            for t in a.targets:
                env[t.id] = v
        elif node.kind == "stmt" and isinstance(a, ast.AugAssign) and isinstance(a.target, ast.Name):
            env = dict(env)
            cur = env.get(a.target.id, ("unknown", a.target.id))
            v = sym.ev(a.value, env)
            if isinstance(a.op, ast.Add):
                env[a.target.id] = T_sum([cur, v])
            elif isinstance(a.op, ast.Mult) and v[0] == "const" and cur[0] not in ("const", "unknown", "thr"):
                env[a.target.id] = ("scale", v[1], cur)
            else:
                env[a.target.id] = ("unknown", norm.stmt_text(a))
        return env

    def rec(node, env, conds, visited):
        if len(out) >= max_paths:
            return
        if node.kind == "return":
            out.append((list(conds), env, node))
            return
        if node is g.exit:
            out.append((list(conds), env, None))
            return
        if node is g.raise_exit or node.kind in ("raise_stmt", "assert_fail"):
            return
        env = step(node, env)
        for (succ, label) in node.succs:
            if label == "exc":
                continue
            key = (node.id, succ.id)
            if key in visited and succ.kind in ("loop_head", "for"):
                continue
            c2 = conds
            if isinstance(label, tuple):
                txt = norm.canon(norm.substitute(label[1], {}), al)
                # resolve boolean locals (a_active = a.is_active())
                if isinstance(label[1], ast.Name):
                    d = norm.definitions(func.node).get(label[1].id)
                    if d is not None:
                        txt = norm.canon(d, al)
                c2 = conds + [(label[0], txt)]
            rec(succ, env, c2, visited | {key})

    rec(g.entry, {}, [], frozenset())
    return sym, out


def consistent(conds, config):
    """config: dict child -> bool (active?).  Is the path condition compatible?"""
    for pol, txt in conds:
        for ch, act in config.items():
            if txt == "self.%s.is_active()" % ch:
                if (pol == "T") != act:
                    return False
    return True


def geq(a, b, depth=0):
    """a is an upper bound of b (structurally)."""
    if depth > 8:
        return False
    if a == b:
        return True
    if b == ("const", "0") or b == ("const", "0.0"):
        return a[0] != "unknown"
    ka, kb = a[0], b[0]
    if ka == "choice":
        return geq(a[1], b, depth + 1) and geq(a[2], b, depth + 1)
    if kb == "choice":
        return geq(a, b[1], depth + 1) and geq(a, b[2], depth + 1)
    if ka == "atom" and kb == "atom":
        return a[2] == b[2] and (a[1] == b[1] or (a[1] in ("MQ", "BQ") and b[1] in ("S",))
                                 or (a[1] == "BUFMAX" and b[1] == "BUF"))
    if ka == "scale" and kb == "scale":
        return a[1] == b[1] and geq(a[2], b[2], depth + 1)
    if ka == "apply" and kb == "apply":
        # CoordMatcher._sqr(score, matching) is non-decreasing in both arguments and
        # matching <= self._termcount (the number of term matchers in the tree)
        extra_ok = a[3] == b[3] or (a[3] == "self._termcount" and b[3] == "<count of matching_terms>")
        return a[1] == b[1] and extra_ok and geq(a[2], b[2], depth + 1)
    if ka == "all" and kb == "all":
        # sum over all >= max over all; same op: kinds must bound
        kinds_ok = a[2] == b[2] or (a[2] in ("MQ", "BQ") and b[2] == "S")
        if not (kinds_ok and a[3] == b[3]):
            return False
        # a bound over the ACTIVE members only cannot bound an aggregate over all members
        # (read-ahead unions still hold buffered hits of exhausted sub-matchers)
        if a[4] and not b[4]:
            return False
        if a[1] == b[1]:
            return True
        return a[1] == "sum" and b[1] == "max"
    if kb == "sum":
        if ka == "sum":
            # injective matching of b's members into a's
            avail = list(a[1])
            for m in b[1]:
                hit = None
                for x in avail:
                    if geq(x, m, depth + 1):
                        hit = x
                        break
                if hit is None:
                    return False
                avail.remove(hit)
            return True
        return False
    if kb == "max":
        return all(geq(a, m, depth + 1) for m in b[1])
    if ka == "sum":
        return any(geq(x, b, depth + 1) for x in a[1])
    if ka == "max":
        return any(geq(x, b, depth + 1) for x in a[1])
    return False
