"""Condition paths of boolean expressions, and small predicate functions as expressions.

`true_paths(expr, ...)` enumerates the ways a (short-circuit) boolean expression can evaluate to a truthy value: each
way is a frozenset of (polarity, atom text) facts in the same canonical positive form guards.Facts uses.  Together
with `func_as_expr` (a local predicate written with assignments and early returns, turned into one expression) this
lets a rule treat

    for x in xs:                      and        keep = set(x for x in xs if pred(x))
        if a(x):
            if b(x): keep.add(x)

alike: both yield the condition paths under which an element is selected.
"""

import ast
import copy

from . import norm
from .guards import positive, _FLIP

MAX_PATHS = 64


def func_as_expr(fn):
    """A function whose body is assignments of plain names, `if c: return e` guards and a final `return e` (or nested
    if/else of those) -> one expression (conditional expressions; the assigned names substituted).  None if the body has
    any other statement."""
    def block(stmts, env):
        stmts = list(stmts)
        if not stmts:
            return None
        st = stmts[0]
        rest = stmts[1:]
        if isinstance(st, ast.Expr) and isinstance(st.value, ast.Constant):
            return block(rest, env)
        if isinstance(st, ast.Pass):
            return block(rest, env)
        if isinstance(st, ast.Return):
            if st.value is None:
                return ast.Constant(value=None)
            return norm.substitute(st.value, env)
        if isinstance(st, ast.Assign) and len(st.targets) == 1 and isinstance(st.targets[0], ast.Name):
            env2 = dict(env)
            env2[st.targets[0].id] = norm.substitute(st.value, env)
            return block(rest, env2)
        if isinstance(st, ast.Assign) and len(st.targets) == 1 and isinstance(st.targets[0], ast.Tuple) \
                and all(isinstance(e_, ast.Name) for e_ in st.targets[0].elts) and isinstance(st.value, (ast.Name, ast.Attribute)):
            # a, b = item   ->   a = item[0]; b = item[1]
            env2 = dict(env)
            src = norm.substitute(st.value, env)
            for i_, e_ in enumerate(st.targets[0].elts):
                env2[e_.id] = ast.Subscript(value=src, slice=ast.Constant(value=i_), ctx=ast.Load())
            return block(rest, env2)
        if isinstance(st, ast.If):
            test = norm.substitute(st.test, env)
            b = block(list(st.body) + rest if not _terminates(st.body) else st.body, env)
            o = block(list(st.orelse) + rest, env) if (st.orelse or rest) else ast.Constant(value=None)
            if b is None or o is None:
                return None
            return ast.IfExp(test=test, body=b, orelse=o)
        return None
    e = block(fn.body, {})
    if e is not None:
        ast.fix_missing_locations(ast.Expression(body=e))
    return e


def _terminates(body):
    return bool(body) and isinstance(body[-1], ast.Return)


def _is_false_const(e):
    return isinstance(e, ast.Constant) and e.value in (False, None, 0)


def _is_true_const(e):
    return isinstance(e, ast.Constant) and e.value is True


def paths(expr, want, textfn, funcs=None, depth=0):
    """list of frozensets of (pol, text) under which `expr` evaluates truthy (want=True) / falsy (want=False)"""
    funcs = funcs or {}
    if depth > 6:
        return [frozenset([(("T" if want else "F"), textfn(expr))])]
    if isinstance(expr, ast.Constant):
        truth = bool(expr.value)
        return [frozenset()] if truth == want else []
    if isinstance(expr, ast.UnaryOp) and isinstance(expr.op, ast.Not):
        return paths(expr.operand, not want, textfn, funcs, depth)
    if isinstance(expr, ast.BoolOp):
        conj = isinstance(expr.op, ast.And)
        # And true = all true; And false = first false after trues.  Or true = first true after falses; Or false = all false
        vals = expr.values
        if conj == want:
            # all operands equal `want`
            acc = [frozenset()]
            for v in vals:
                nxt = []
                for p in paths(v, want, textfn, funcs, depth):
                    for a in acc:
                        nxt.append(a | p)
                acc = nxt[:MAX_PATHS]
            return acc
        out = []
        prefix = [frozenset()]
        for v in vals:
            for p in paths(v, want, textfn, funcs, depth):
                for a in prefix:
                    out.append(a | p)
            nxt = []
            for p in paths(v, not want, textfn, funcs, depth):
                for a in prefix:
                    nxt.append(a | p)
            prefix = nxt[:MAX_PATHS]
        return out[:MAX_PATHS]
    if isinstance(expr, ast.IfExp):
        out = []
        for pt in paths(expr.test, True, textfn, funcs, depth):
            for pb in paths(expr.body, want, textfn, funcs, depth):
                out.append(pt | pb)
        for pt in paths(expr.test, False, textfn, funcs, depth):
            for pb in paths(expr.orelse, want, textfn, funcs, depth):
                out.append(pt | pb)
        return out[:MAX_PATHS]
    if isinstance(expr, ast.Call) and isinstance(expr.func, ast.Name) and expr.func.id in funcs and not expr.keywords:
        fn = funcs[expr.func.id]
        params = [a.arg for a in fn.args.args]
        body = func_as_expr(fn)
        if body is not None and len(params) == len(expr.args):
            inl = norm.substitute(body, dict(zip(params, expr.args)))
            return paths(inl, want, textfn, funcs, depth + 1)
    pol, e = positive("T" if want else "F", expr)
    return [frozenset([(pol, textfn(e))])]


def true_paths(expr, textfn, funcs=None):
    return paths(expr, True, textfn, funcs)


def local_functions(funcnode):
    """nested function definitions by name"""
    return {n.name: n for n in ast.walk(funcnode) if isinstance(n, ast.FunctionDef) and n is not funcnode}


# --------------------------------------------------------------------------- reach conditions / equivalence
def _neg(e):
    return ast.UnaryOp(op=ast.Not(), operand=e)


def _conj(parts):
    parts = [p for p in parts if p is not None]
    if not parts:
        return ast.Constant(value=True)
    if len(parts) == 1:
        return parts[0]
    return ast.BoolOp(op=ast.And(), values=parts)


def _leaves_block(body):
    return bool(body) and isinstance(body[-1], (ast.Continue, ast.Break, ast.Return, ast.Raise))


def reach_condition(stmts, is_target):
    """The condition (an expression over the tests of the enclosing/preceding `if`s) under which control reaches the
    first statement `s` of the block tree `stmts` with is_target(s); None if there is none.  Earlier siblings of the form
    `if T: ...; continue/break/return/raise` contribute `not T`; loops and try blocks are entered without a condition."""
    pre = []
    for st in stmts:
        if is_target(st):
            return _conj(list(pre))
        if isinstance(st, ast.If):
            r = reach_condition(st.body, is_target)
            if r is not None:
                return _conj(pre + [st.test, r])
            r = reach_condition(st.orelse, is_target)
            if r is not None:
                return _conj(pre + [_neg(st.test), r])
            if _leaves_block(st.body) and not st.orelse:
                pre.append(_neg(st.test))
            elif st.orelse and _leaves_block(st.orelse) and not _leaves_block(st.body):
                pre.append(st.test)
        elif isinstance(st, (ast.For, ast.While, ast.With, ast.Try)):
            for fld in ("body", "orelse", "finalbody"):
                r = reach_condition(getattr(st, fld, []) or [], is_target)
                if r is not None:
                    return _conj(pre + [r])
    return None


def bool_atoms(expr, textfn, out=None):
    """the atoms (canonical positive texts) of a boolean expression, in first-occurrence order"""
    out = [] if out is None else out
    if isinstance(expr, ast.Constant):
        return out
    if isinstance(expr, ast.UnaryOp) and isinstance(expr.op, ast.Not):
        return bool_atoms(expr.operand, textfn, out)
    if isinstance(expr, ast.BoolOp):
        for v in expr.values:
            bool_atoms(v, textfn, out)
        return out
    if isinstance(expr, ast.IfExp):
        for v in (expr.test, expr.body, expr.orelse):
            bool_atoms(v, textfn, out)
        return out
    _, e = positive("T", expr)
    t = textfn(e)
    if t not in out:
        out.append(t)
    return out


def bool_eval(expr, textfn, assignment):
    if isinstance(expr, ast.Constant):
        return bool(expr.value)
    if isinstance(expr, ast.UnaryOp) and isinstance(expr.op, ast.Not):
        return not bool_eval(expr.operand, textfn, assignment)
    if isinstance(expr, ast.BoolOp):
        vals = [bool_eval(v, textfn, assignment) for v in expr.values]
        return all(vals) if isinstance(expr.op, ast.And) else any(vals)
    if isinstance(expr, ast.IfExp):
        return bool_eval(expr.body if bool_eval(expr.test, textfn, assignment) else expr.orelse, textfn, assignment)
    pol, e = positive("T", expr)
    v = assignment[textfn(e)]
    return v if pol == "T" else not v


def equivalent(e1, e2, textfn, max_atoms=10):
    """Are two boolean expressions the same function of their atoms (truth values; short-circuit order ignored)?
    Returns (True/False, atoms); None for too many atoms."""
    import itertools
    atoms = bool_atoms(e1, textfn)
    bool_atoms(e2, textfn, atoms)
    if len(atoms) > max_atoms:
        return None, atoms
    for vals in itertools.product((False, True), repeat=len(atoms)):
        asg = dict(zip(atoms, vals))
        if bool_eval(e1, textfn, asg) != bool_eval(e2, textfn, asg):
            return False, atoms
    return True, atoms
