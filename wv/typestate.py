"""Typestate analysis over the CFG x finite-state product (K1/K2 rules whose
event alphabets are too rich for explicit trace sets).

A rule supplies: a finite set of states, a transition function
delta(state, event) -> state, and the same event hooks as traces.Tracer
(classify / follow / stmt_event / edge_event).  Callees that are followed are
summarised as relations state -> set(states) (fixpoint-free: recursion and the
depth bound yield the identity relation).  `run` explores the product graph
from (entry, s0) and returns, per reachable exit state, a witness path.
"""

import ast

from . import cfg as cfgmod
from . import norm
from .model import AnalysisError


class TypeState(object):
    def __init__(self, prog, calls, delta, classify, follow=None, stmt_event=None,
                 edge_event=None, max_depth=3):
        self.prog = prog
        self.calls = calls
        self.delta = delta
        self.classify = classify
        self.follow = follow or (lambda *a: [])
        self.stmt_event = stmt_event
        self.edge_event = edge_event
        self.max_depth = max_depth
        self._summ = {}
        self._stack = []

    # items of a node: ("ev", event) | ("call", [(func, concrete)])
    def _items(self, func, node, concrete, al):
        items = []
        if self.stmt_event is not None:
            ev = self.stmt_event(func, node)
            if ev is not None:
                for e in (ev if isinstance(ev, list) else [ev]):
                    items.append(("ev", e))
        for frag in cfgmod.node_exprs(node):
            for call in norm.calls_in(frag):
                res = self.calls.resolve(func, call, concrete, al)
                ev = self.classify(func, call, res, concrete)
                if ev is not None:
                    items.append(("ev", ev))
                tg = self.follow(func, call, res, concrete)
                if tg:
                    items.append(("call", tg))
        return items

    def _apply(self, func, node, concrete, al, state, depth):
        """-> set of states after the node (normal completion)."""
        cur = {state}
        for kind, x in self._items(func, node, concrete, al):
            if kind == "ev":
                cur = set(self.delta(s, x) for s in cur)
            else:
                nxt = set()
                for (tf, tc) in x:
                    rel = self.summary(tf, tc, depth + 1)
                    for s in cur:
                        nxt |= rel.get(s, {s})
                cur = nxt or cur
        return cur

    def summary(self, func, concrete, depth=0):
        """state -> set of states at normal exit (identity for unexplored)."""
        key = (func.qualname, concrete.qualname if concrete else None)
        if key in self._summ:
            return self._summ[key]
        if key in self._stack or depth > self.max_depth:
            return {}
        self._stack.append(key)
        try:
            rel = {}
            for s0 in self.all_states:
                exits, _ = self._explore(func, concrete, s0, depth)
                rel[s0] = set(exits)
        finally:
            self._stack.pop()
        self._summ[key] = rel
        return rel

    all_states = ()

    def _explore(self, func, concrete, s0, depth):
        g = cfgmod.cfg_of(func)
        al = norm.aliases(func.node)
        start = (g.entry.id, s0)
        pred = {start: None}
        work = [start]
        exits = {}
        while work:
            nid, st = work.pop()
            node = g.nodes[nid]
            if node is g.exit:
                exits.setdefault(st, (nid, st))
                continue
            if node is g.raise_exit:
                continue
            outs = self._apply(func, node, concrete, al, st, depth)
            for (succ, label) in node.succs:
                if label == "exc" and node.kind not in ("finally_exc",):
                    # exceptional paths are not part of the obligations
                    continue
                for s1 in outs:
                    s2 = s1
                    if self.edge_event is not None and isinstance(label, tuple):
                        e = self.edge_event(func, node, label)
                        if e is not None:
                            s2 = self.delta(s1, e)
                    k = (succ.id, s2)
                    if k not in pred:
                        pred[k] = (nid, st)
                        work.append(k)
        return exits, pred

    def run(self, func, concrete, s0):
        """-> {exit_state: [cfg nodes of a witness path]}"""
        exits, pred = self._explore(func, concrete, s0, 0)
        g = cfgmod.cfg_of(func)
        out = {}
        for st, k in exits.items():
            path = []
            cur = k
            while cur is not None:
                path.append(g.nodes[cur[0]])
                cur = pred[cur]
            path.reverse()
            out[st] = path
        return out
