"""Alpha-equivalence matching of code against reference patterns.

Rules describe the expected form of an expression/statement as Python text using
the local-variable names the reference version of whoosh uses.  `Alpha.eq(node,
pattern)` decides whether `node` equals the pattern

  * up to a consistent (bijective) renaming of the function's own local variables
    (parameters, attributes, globals, builtins and callee names must be identical),
  * up to commutativity of + * & | and/or == != is/is not, and `a > b` == `b < a`,
  * with the wildcard names `ANY`, `ANY1`, ... matching any expression (same
    wildcard -> same expression).

One Alpha object is kept per (rule, function) so that the renaming is consistent
across all obligations about that function (`k` in `k = distance(...)` is the same
variable as in `k <= maxdist`).
"""

import ast
import builtins
import itertools

from . import norm

_COMM_BIN = (ast.Add, ast.Mult, ast.BitAnd, ast.BitOr)
_SYMM_CMP = (ast.Eq, ast.NotEq, ast.Is, ast.IsNot)
_FLIP = {ast.Gt: ast.Lt, ast.GtE: ast.LtE}
_SKIP_FIELDS = ("ctx", "lineno", "col_offset", "end_lineno", "end_col_offset", "type_comment", "kind")

_pattern_cache = {}


def parse_pattern(text):
    r = _pattern_cache.get(text)
    if r is None:
        try:
            r = ast.parse(text, mode="eval").body
        except SyntaxError:
            mod = ast.parse(text)
            r = mod.body[0] if len(mod.body) == 1 else mod.body
        _pattern_cache[text] = r
    return r


def local_names(funcnode):
    """Names bound inside the function that are not parameters (including
    comprehension targets and nested-function locals: any of them may be renamed
    freely without changing behaviour)."""
    params = set()
    out = set()
    for n in ast.walk(funcnode):
        if isinstance(n, (ast.FunctionDef, ast.AsyncFunctionDef, ast.Lambda)):
            a = n.args
            ps = [x.arg for x in list(getattr(a, "posonlyargs", [])) + list(a.args) + list(a.kwonlyargs)]
            if a.vararg:
                ps.append(a.vararg.arg)
            if a.kwarg:
                ps.append(a.kwarg.arg)
            if n is funcnode:
                params.update(ps)
            else:
                out.update(ps)  # parameters of nested lambdas/defs are local names too
        elif isinstance(n, ast.Name) and isinstance(n.ctx, (ast.Store, ast.Del)):
            out.add(n.id)
        elif isinstance(n, ast.ExceptHandler) and n.name:
            out.add(n.name)
    return out - params, params


class Alpha(object):
    def __init__(self, func, extra_globals=()):
        """func: FuncInfo (or a bare ast.FunctionDef)."""
        node = getattr(func, "node", func)
        self.locals, self.params = local_names(node)
        self.fixed = set(dir(builtins)) | set(extra_globals)
        mod = getattr(func, "module", None)
        if mod is not None:
            self.fixed |= set(mod.imports) | set(mod.functions) | set(mod.classes) | set(mod.assigns)
        self.fwd = {}
        self.rev = {}
        self.wild = {}
        self.al = norm.aliases(node) if isinstance(node, (ast.FunctionDef, ast.AsyncFunctionDef)) else {}
        self.funcnode = node if isinstance(node, (ast.FunctionDef, ast.AsyncFunctionDef)) else None

    # -- public
    def eq(self, node, pattern, al=False, deep=False):
        """al=True: single-assignment path aliases (postfile = self._postfile) are
        substituted in `node` first; write the pattern with the full paths.
        deep=True: every single-assignment local read in `node` is replaced by its
        defining expression first (recursively); write the pattern fully inlined."""
        if node is None:
            return False
        if isinstance(node, str):
            node = parse_pattern(node)
        if deep and self.funcnode is not None:
            node = norm.inline_defs(node, self.funcnode, depth=8)
        elif al and self.al:
            node = norm.substitute(node, self.al)
        p = parse_pattern(pattern) if isinstance(pattern, str) else pattern
        saved = (dict(self.fwd), dict(self.rev), dict(self.wild))
        if self._m(p, node):
            return True
        self.fwd, self.rev, self.wild = saved
        return False

    def eq_any(self, node, patterns):
        return any(self.eq(node, p) for p in patterns)

    def find(self, nodes, pattern, al=False, deep=False):
        for n in nodes:
            if self.eq(n, pattern, al, deep):
                return n
        return None

    def has(self, nodes, pattern, al=False, deep=False):
        return self.find(nodes, pattern, al, deep) is not None

    def fact(self, facts, pol, pattern):
        """is (pol, <text alpha-equal to pattern>) among the must-facts?"""
        for (p_, t) in facts or ():
            if p_ != pol:
                continue
            try:
                if self.eq(t, pattern):
                    return True
            except SyntaxError:
                continue
        return False

    def text(self, node):
        """canonical text of node with actual local names replaced by the pattern names bound so far
        (for details/keys that should not depend on local naming)."""
        import copy
        back = {a: ast.Name(id=p_, ctx=ast.Load()) for p_, a in self.fwd.items() if p_ != a}
        if not back:
            return norm.canon(node) if isinstance(node, ast.expr) else norm.stmt_text(node)
        n2 = norm._Subst(back).visit(copy.deepcopy(node))
        return norm.canon(n2) if isinstance(n2, ast.expr) else norm.stmt_text(n2)

    def name(self, pattern_name):
        """actual name bound to a pattern variable (or the name itself)."""
        return self.fwd.get(pattern_name, pattern_name)

    def bind(self, pattern_name, actual):
        self.fwd[pattern_name] = actual
        self.rev[actual] = pattern_name

    # -- matching
    def _name(self, p, a):
        if p in self.fwd:
            return self.fwd[p] == a
        if a in self.rev:
            return False
        if p == a:
            self.fwd[p] = a
            self.rev[a] = p
            return True
        if a in self.locals and p not in self.params and p not in self.fixed:
            self.fwd[p] = a
            self.rev[a] = p
            return True
        return False

    def _try(self, fn):
        saved = (dict(self.fwd), dict(self.rev), dict(self.wild))
        if fn():
            return True
        self.fwd, self.rev, self.wild = saved
        return False

    def _m(self, p, a):
        if isinstance(p, list):
            return isinstance(a, list) and len(p) == len(a) and all(self._m(x, y) for x, y in zip(p, a))
        if not isinstance(p, ast.AST):
            return p == a
        if isinstance(p, ast.Name) and p.id.startswith("ANY") and (p.id == "ANY" or p.id[3:].isdigit()):
            if not isinstance(a, ast.AST):
                return False
            t = norm.canon(a) if isinstance(a, ast.expr) else norm.stmt_text(a)
            if p.id == "ANY":
                return True
            if p.id in self.wild:
                return self.wild[p.id] == t
            self.wild[p.id] = t
            return True
        if isinstance(p, ast.Expr) and isinstance(a, ast.expr):
            return self._m(p.value, a)
        if isinstance(a, ast.Expr) and isinstance(p, ast.expr):
            return self._m(p, a.value)
        # a > b  ==  b < a
        if isinstance(p, ast.Compare) and isinstance(a, ast.Compare) and len(p.ops) == 1 and len(a.ops) == 1:
            pl, pop, pr = p.left, type(p.ops[0]), p.comparators[0]
            al, aop, ar = a.left, type(a.ops[0]), a.comparators[0]
            if pop in _FLIP:
                pl, pop, pr = pr, _FLIP[pop], pl
            if aop in _FLIP:
                al, aop, ar = ar, _FLIP[aop], al
            if pop is not aop:
                return False
            if self._try(lambda: self._m(pl, al) and self._m(pr, ar)):
                return True
            if pop in _SYMM_CMP:
                return self._try(lambda: self._m(pl, ar) and self._m(pr, al))
            return False
        if type(p) is not type(a):
            return False
        if isinstance(p, ast.Name):
            return self._name(p.id, a.id)
        if isinstance(p, ast.Constant):
            return type(p.value) is type(a.value) and p.value == a.value
        if isinstance(p, ast.BinOp) and type(p.op) is type(a.op) and isinstance(p.op, _COMM_BIN):
            if self._try(lambda: self._m(p.left, a.left) and self._m(p.right, a.right)):
                return True
            return self._try(lambda: self._m(p.left, a.right) and self._m(p.right, a.left))
        if isinstance(p, ast.BoolOp):
            if type(p.op) is not type(a.op) or len(p.values) != len(a.values):
                return False
            if len(p.values) > 4:
                return all(self._m(x, y) for x, y in zip(p.values, a.values))
            for perm in itertools.permutations(a.values):
                if self._try(lambda perm=perm: all(self._m(x, y) for x, y in zip(p.values, perm))):
                    return True
            return False
        if isinstance(p, ast.Call):
            if not self._m(p.func, a.func) or not self._m(p.args, a.args):
                return False
            pk = sorted(p.keywords, key=lambda k: k.arg or "")
            ak = sorted(a.keywords, key=lambda k: k.arg or "")
            return len(pk) == len(ak) and all(x.arg == y.arg and self._m(x.value, y.value) for x, y in zip(pk, ak))
        if isinstance(p, ast.ExceptHandler):
            if (p.name is None) != (a.name is None):
                return False
            if p.name is not None and not self._name(p.name, a.name):
                return False
            return self._m(p.type, a.type) and self._m(p.body, a.body)
        for field in p._fields:
            if field in _SKIP_FIELDS:
                continue
            pv, av = getattr(p, field, None), getattr(a, field, None)
            if isinstance(pv, ast.AST) or isinstance(pv, list):
                if not self._m(pv, av):
                    return False
            elif pv != av:
                return False
        return True


def exprs_of(node, kinds=None):
    """all sub-expressions (ast.expr) under node."""
    return [n for n in ast.walk(node) if isinstance(n, kinds or ast.expr)]


def stmts_of(node, kinds=None):
    return [n for n in ast.walk(node) if isinstance(n, kinds or ast.stmt)]
