"""E5 -- interprocedural event traces (K1 order / must-pass rules).

For a function, compute the set of *projected event traces* of its paths: the
sequence of events (chosen by a rule-supplied classifier over call sites and
statements) along every CFG path, with callees inlined up to a stated depth.
Traces with no events collapse, immediate repetitions collapse (loops
converge), so the sets stay small and every violation comes with a concrete
offending trace.  Exits are tagged normal / raise.
"""

import ast

from . import cfg as cfgmod
from . import norm
from .model import AnalysisError

MAX_TRACES = 4000
MAX_LEN = 40


def _append(trace, ev):
    t = trace + (ev,)
    # collapse immediate repetition of a suffix pattern (P P -> P), |P| <= 6
    n = len(t)
    for k in range(1, 7):
        if n >= 2 * k and t[n - k:] == t[n - 2 * k:n - k]:
            return t[:n - k]
    if len(t) > MAX_LEN:
        raise AnalysisError("event trace longer than %d events" % MAX_LEN)
    return t


def _concat(a, b):
    t = a
    for e in b:
        t = _append(t, e)
    return t


class Tracer(object):
    def __init__(self, prog, calls, classify, follow=None, stmt_event=None, max_depth=6,
                 track_raises=True, edge_event=None):
        """classify(func, call, res, concrete) -> event or None
        follow(func, call, res, concrete) -> list of (FuncInfo, concrete class or None) to inline
        stmt_event(func, cfgnode) -> event or None, for non-call events (raise, assignments)
        """
        self.prog = prog
        self.calls = calls
        self.classify = classify
        self.follow = follow or self.default_follow
        self.stmt_event = stmt_event
        self.edge_event = edge_event
        self.max_depth = max_depth
        self.track_raises = track_raises
        self._memo = {}
        self._stack = []
        self.inlined = set()
        self.max_depth_seen = 0

    def default_follow(self, func, call, res, concrete):
        if res.kind in ("exact", "cha", "typed") and 0 < len(res.targets) <= 6:
            out = []
            for t in res.targets:
                c = None
                if res.kind in ("exact",) and isinstance(call.func, ast.Attribute) \
                        and isinstance(call.func.value, ast.Name) and call.func.value.id == "self":
                    c = concrete
                out.append((t, c))
            return out
        return []

    def traces(self, func, concrete=None, depth=0):
        """-> {"normal": frozenset(traces), "raise": frozenset(traces)}"""
        key = (func.qualname, concrete.qualname if concrete else None)
        if key in self._memo:
            return self._memo[key]
        if key in self._stack or depth > self.max_depth:
            # recursion / depth bound: callee contributes no events
            return {"normal": frozenset([()]), "raise": frozenset()}
        self._stack.append(key)
        self.max_depth_seen = max(self.max_depth_seen, depth)
        try:
            r = self._analyse(func, concrete, depth)
        finally:
            self._stack.pop()
        self._memo[key] = r
        self.inlined.add(func.qualname)
        return r

    def _node_effect(self, func, node, concrete, depth, state, al):
        """Apply a CFG node to a set of traces -> (normal_out, raised_traces)."""
        raised = set()
        cur = set(state)
        if self.stmt_event is not None:
            ev = self.stmt_event(func, node)
            if ev is not None:
                evs = ev if isinstance(ev, list) else [ev]
                for e in evs:
                    if e[0:1] != ("after",):
                        cur = set(_append(t, e) for t in cur)
        for frag in cfgmod.node_exprs(node):
            for call in norm.calls_in(frag):
                res = self.calls.resolve(func, call, concrete, al)
                ev = self.classify(func, call, res, concrete)
                if ev is not None:
                    cur = set(_append(t, ev) for t in cur)
                targets = self.follow(func, call, res, concrete)
                if targets:
                    nxt = set()
                    for (tf, tc) in targets:
                        sub = self.traces(tf, tc, depth + 1)
                        for t in cur:
                            for s in sub["normal"]:
                                nxt.add(_concat(t, s))
                            if self.track_raises:
                                for s in sub["raise"]:
                                    raised.add(_concat(t, s))
                    if not nxt and not any(self.traces(tf, tc, depth + 1)["normal"] for tf, tc in targets):
                        # callee never returns normally
                        cur = set()
                    else:
                        cur = nxt
                    if len(cur) > MAX_TRACES:
                        raise AnalysisError("trace set too large in %s" % func.qualname)
        return cur, raised

    def _analyse(self, func, concrete, depth):
        g = cfgmod.cfg_of(func, exc_edges=True)
        al = norm.aliases(func.node)
        n = len(g.nodes)
        sin = [set() for _ in range(n)]
        sin[g.entry.id] = {()}
        work = [g.entry]
        inwork = {g.entry.id}
        raise_out = set()
        guard = 0
        while work:
            guard += 1
            if guard > 50000:
                raise AnalysisError("trace analysis did not converge in %s" % func.qualname)
            node = work.pop(0)
            inwork.discard(node.id)
            state = sin[node.id]
            if not state:
                continue
            out, raised = self._node_effect(func, node, concrete, depth, state, al)
            has_exc_succ = any(l == "exc" for (_, l) in node.succs)
            if raised:
                if has_exc_succ:
                    pass  # delivered along the exc edges below
                else:
                    raise_out |= raised
            for (succ, label) in node.succs:
                if label == "exc":
                    if node.kind in ("raise_stmt", "assert_fail", "finally_exc") or node.kind == "stmt" and False:
                        st = out
                    else:
                        # exception thrown by a callee (its raise traces) or by
                        # the statement before its effect completes
                        st = set(raised)
                        if node.kind in ("raise_stmt", "assert_fail"):
                            st |= out
                    if node.kind not in ("raise_stmt", "assert_fail", "finally_exc") and not self.track_raises:
                        continue
                else:
                    st = out
                if self.edge_event is not None and label not in (None, "exc"):
                    e = self.edge_event(func, node, label)
                    if e is not None:
                        st = set(_append(t, e) for t in st)
                if not st:
                    continue
                if not st <= sin[succ.id]:
                    sin[succ.id] |= st
                    if len(sin[succ.id]) > MAX_TRACES:
                        raise AnalysisError("trace set too large in %s" % func.qualname)
                    if succ.id not in inwork:
                        work.append(succ)
                        inwork.add(succ.id)
        normal = frozenset(sin[g.exit.id])
        raise_out |= sin[g.raise_exit.id]
        return {"normal": normal, "raise": frozenset(raise_out)}


def first_index(trace, pred):
    for i, e in enumerate(trace):
        if pred(e):
            return i
    return -1


def last_index(trace, pred):
    for i in range(len(trace) - 1, -1, -1):
        if pred(trace[i]):
            return i
    return -1


def fmt(trace):
    return " -> ".join(str(e) for e in trace) if trace else "(no events)"
